import GsModel.Diff.SelfTop
/-
  C13, lifting from the comparators to the report: the analyser only ever *appends* to its list of differences
  (`Mono`), so an entry written by the comparison of one parameter is still in the report `Analyse` returns; and the
  loops over parameter locations, endpoints and parameters do reach every parameter present in both documents.
-/
namespace Gs.Diff
open Gs Gs.Gen Gs.Outcome

/-- every difference recorded in `st` is still recorded in `st'` -/
def Sub (st st' : St) : Prop := ∀ d ∈ st.diffs, d ∈ st'.diffs

theorem Sub.refl (st : St) : Sub st st := fun _ h => h
theorem Sub.trans {a b c : St} (h1 : Sub a b) (h2 : Sub b c) : Sub a c := fun d h => h2 d (h1 d h)
theorem Sub.of_eq {a b : St} (h : b.diffs = a.diffs) : Sub a b := fun d hd => by rw [h]; exact hd

abbrev Mono (st : St) (x : Outcome St) : Prop := Holds (Sub st) x

theorem Mono.trans {a b : St} {x : Outcome St} (h : Sub a b) (hx : Mono b x) : Mono a x :=
  Holds.mono hx (fun _ hc => h.trans hc)

theorem addDiff_sub (st : St) (loc : Loc) (c : Code) (info : String) : Sub st (st.addDiff loc c info) := by
  intro d hd
  simp only [St.addDiff, List.mem_append]
  exact Or.inl hd

theorem addTypeDiff_sub (st : St) (loc : Loc) (d : TDiff) : Sub st (st.addTypeDiff loc d) := by
  unfold St.addTypeDiff
  exact addDiff_sub _ _ _ _

theorem addDiffs_sub (st : St) (loc : Loc) (ds : List TDiff) : Sub st (st.addDiffs loc ds) := by
  unfold St.addDiffs
  refine foldl_inv (Sub st) _ _ _ (Sub.refl _) ?_
  intro b a _ hb
  split
  · exact hb
  · exact hb.trans (addTypeDiff_sub _ _ _)

theorem compareDescripton_sub (st : St) (loc : Loc) (d1 d2 : String) : Sub st (st.compareDescripton loc d1 d2) := by
  unfold St.compareDescripton
  split
  · exact addDiff_sub _ _ _ _
  · exact Sub.refl _

theorem markRefs_sub (st : St) (l : List String) : Sub st (st.markRefs l) := Sub.of_eq rfl

theorem foldlM_mono {α} (f : St → α → Outcome St) (l : List α) (st0 st : St) (h0 : Sub st0 st)
    (hf : ∀ b a, a ∈ l → Mono b (f b a)) : Mono st0 (foldlM f st l) :=
  foldlM_holds (Sub st0) f l st h0 (fun b a ha hb => Mono.trans hb (hf b a ha))

/-! ### schemas -/

theorem compareSimpleSchema_mono (loc : Loc) : ∀ (c1 c2 : List Simple) (st : St), Mono st (compareSimpleSchema loc c1 c2 st)
  | [], _, _ => by simp [compareSimpleSchema, Mono]
  | _ :: _, [], _ => by simp [compareSimpleSchema, Mono]
  | s1 :: r1, s2 :: r2, st => by
    unfold compareSimpleSchema
    have ts : ∀ (c : Code) (st : St), Mono st
        ((typeStrOfSimple (s1 :: r1)).bind fun f => (typeStrOfSimple (s2 :: r2)).bind fun t =>
          Outcome.ok (st.addDiffs loc [{ change := c, fromT := f, toT := t }])) := by
      intro c st
      refine Holds.bind (P := fun _ => True) (Holds.of_true _ (fun _ => trivial)) (fun _ _ => ?_)
      refine Holds.bind (P := fun _ => True) (Holds.of_true _ (fun _ => trivial)) (fun _ _ => ?_)
      exact addDiffs_sub _ _ _
    dsimp only
    refine Holds.bind (P := Sub st) ?_ (fun st1 h1 => ?_)
    · split
      · exact ts _ _
      · split
        · exact ts _ _
        · exact Sub.refl _
    refine Holds.bind (P := Sub st) ?_ (fun st2 h2 => ?_)
    · split
      · exact Mono.trans h1 (ts _ _)
      · exact h1
    refine Holds.bind (P := fun _ => True) (Holds.of_true _ (fun _ => trivial)) (fun _ _ => ?_)
    refine Holds.bind (P := Sub st) ?_ (fun st3 h3 => ?_)
    · split
      · exact Mono.trans h2 (ts _ _)
      · exact h2
    refine Holds.bind (P := fun _ => True) (Holds.of_true _ (fun _ => trivial)) (fun _ _ => ?_)
    refine Holds.bind (P := Sub st) ?_ (fun st4 h4 => ?_)
    · split
      · exact Mono.trans h3 (ts _ _)
      · exact h3
    split
    · exact Mono.trans h4 (compareSimpleSchema_mono loc r1 r2 st4)
    · exact h4

abbrev CmpMono (cmp : Cmp) : Prop := ∀ loc o1 o2 st, Mono st (cmp loc o1 o2 st)

theorem compareItems_mono (cmp : Cmp) (hc : CmpMono cmp) (n : Nat) (loc : Loc) (t1 t2 : Schema) (st : St) :
    Mono st (compareItems cmp n loc t1 t2 st) := by
  unfold compareItems
  split
  · split
    · split
      · exact hc _ _ _ _
      · exact Sub.refl _
    · refine Holds.bind (P := fun _ => True) (Holds.of_true _ (fun _ => trivial)) (fun _ _ => ?_)
      refine Holds.bind (P := fun _ => True) (Holds.of_true _ (fun _ => trivial)) (fun _ _ => ?_)
      exact addDiffs_sub _ _ _
  · exact Sub.refl _

theorem propStep_mono (cmp : Cmp) (hc : CmpMono cmp) (n : Nat) (loc : Loc) (props2 : List (String × PropDefn))
    (acc : St × List (Loc × Code)) (kv : String × PropDefn) :
    Holds (fun (r : St × List (Loc × Code)) => Sub acc.1 r.1) (propStep cmp n loc props2 acc kv) := by
  unfold propStep
  refine Holds.bind (P := fun _ => True) (Holds.of_true _ (fun _ => trivial)) (fun childLoc _ => ?_)
  split
  · dsimp only
    exact Holds.bind (hc childLoc _ _ acc.1) (fun st' h => h)
  · exact Sub.refl _

theorem compareProperties_mono (cx : Ctx) (cmp : Cmp) (hc : CmpMono cmp) (n : Nat) (loc : Loc) (t1 t2 : Schema) (st : St) :
    Mono st (compareProperties cx cmp n loc t1 t2 st) := by
  unfold compareProperties
  split
  · exact Sub.refl _
  · refine Holds.bind (P := fun _ => True) (Holds.of_true _ (fun _ => trivial)) (fun pr1 _ => ?_)
    refine Holds.bind (P := fun _ => True) (Holds.of_true _ (fun _ => trivial)) (fun pr2 _ => ?_)
    dsimp only
    refine Holds.bind (P := fun (r : St × List (Loc × Code)) => Sub st r.1) ?_ (fun r hr => ?_)
    · refine foldlM_holds (fun (r : St × List (Loc × Code)) => Sub st r.1) _ _ _ (markRefs_sub _ _) ?_
      intro acc kv _ hacc
      exact Holds.mono (propStep_mono cmp hc n loc pr2.1 acc kv) (fun _ h => hacc.trans h)
    · refine Holds.bind (P := fun _ => True) (Holds.of_true _ (fun _ => trivial)) (fun pd _ => ?_)
      simp only [holds_ok]
      refine foldl_inv (Sub st) _ _ _ hr ?_
      intro b a _ hb
      exact hb.trans (addDiff_sub _ _ _ _)

theorem schemaFromRef_sub (st : St) (d : Defs) (r : String) : Sub st (schemaFromRef st d r).2 :=
  Sub.of_eq (schemaFromRef_diffs st d r)

theorem resolveBoth_sub (cx : Ctx) (loc : Loc) (s1 s2 : Schema) (st : St) :
    Holds (fun r => match r with
      | none => True
      | some (_, _, st') => Sub st st') (resolveBoth cx loc s1 s2 st) := by
  unfold resolveBoth
  dsimp only
  refine Holds.bind (P := fun r => match r with
      | none => True
      | some (_, st') => Sub st st') ?_ ?_
  · split
    · refine Holds.bind (P := fun _ => True) (Holds.of_true _ (fun _ => trivial)) (fun key _ => ?_)
      split
      · simp
      · simp only [holds_ok]
        exact Sub.trans (b := { st with visited := st.visited ++ [key] }) (Sub.of_eq rfl) (schemaFromRef_sub _ _ _)
    · simp only [holds_ok]
      exact Sub.refl _
  · intro r hr
    cases r with
    | none => simp
    | some p =>
      obtain ⟨o1, st'⟩ := p
      simp only [holds_ok]
      split
      · exact Sub.trans hr (schemaFromRef_sub _ _ _)
      · exact hr

theorem compareSchema_mono (cx : Ctx) : ∀ n, CmpMono (compareSchema cx n)
  | 0 => by intro loc o1 o2 st; simp [compareSchema, Mono]
  | n+1 => by
    intro loc o1 o2 st
    unfold compareSchema
    cases o1 with
    | none => simp [Mono]
    | some s1 =>
    cases o2 with
    | none => simp [Mono]
    | some s2 =>
    dsimp only
    refine Holds.bind (P := fun _ => True) (Holds.of_true _ (fun _ => trivial)) (fun refDiffs _ => ?_)
    split
    · simp only [holds_ok]
      refine foldl_inv (Sub st) _ _ _ (Sub.refl _) ?_
      intro b a _ hb
      exact hb.trans (addTypeDiff_sub _ _ _)
    · refine Holds.bind (resolveBoth_sub cx loc s1 s2 st) ?_
      intro r hr
      match r, hr with
      | none, _ => exact Sub.refl _
      | some (none, _, _), _ => trivial
      | some (some t1, none, _), _ => trivial
      | some (some t1, some t2, st'), h =>
        dsimp only
        refine Holds.bind (P := fun _ => True) (Holds.of_true _ (fun _ => trivial)) (fun typeDiffs _ => ?_)
        have h' : Sub st (st'.compareDescripton loc t1.desc t2.desc) := Sub.trans h (compareDescripton_sub _ _ _ _)
        split
        · exact h'.trans (addDiffs_sub _ _ _)
        · refine Holds.bind (Mono.trans h' (compareItems_mono _ (compareSchema_mono cx n) n loc t1 t2 _)) (fun st'' h'' => ?_)
          exact Mono.trans h'' (compareProperties_mono cx _ (compareSchema_mono cx n) n loc t1 t2 st'')

/-! ### parameters -/

theorem compareParams_mono (cx : Ctx) (n : Nat) (url method location name : String) (p1 p2 : Param) (st : St) :
    Mono st (compareParams cx n url method location name p1 p2 st) := by
  unfold compareParams
  dsimp only
  refine Holds.bind (P := fun (r : Loc × St) => Sub st r.2) ?_ (fun r hr => ?_)
  · split
    · refine Holds.bind (P := fun _ => True) (Holds.of_true _ (fun _ => trivial)) (fun cl _ => ?_)
      refine Holds.bind (Mono.trans (compareDescripton_sub _ _ _ _) (compareSchema_mono cx n cl _ _ _)) (fun st' h => h)
    · exact compareDescripton_sub _ _ _ _
  · refine Holds.bind (P := fun _ => True) (Holds.of_true _ (fun _ => trivial)) (fun diffs _ => ?_)
    refine Holds.bind (P := fun _ => True) (Holds.of_true _ (fun _ => trivial)) (fun nd _ => ?_)
    exact Mono.trans (hr.trans ((addDiffs_sub _ _ _).trans (addDiffs_sub _ _ _))) (compareSimpleSchema_mono _ _ _ _)

/-- the three loop bodies of analyseRequestParams, named (the definition inlines them) -/
def delParamStep (location : Loc) (params2 : List (String × Param)) (st : St) (kv : String × Param) : Outcome St :=
  if hasKey params2 kv.1 then .ok st else
  (nodeOfSimple kv.1 kv.2.chain).bind fun nd =>
    .ok (st.addDiff (location.addNode nd)
          (if kv.2.required then Code.DeletedRequiredParam else Code.DeletedOptionalParam))

def cmpParamStep (cx : Ctx) (n : Nat) (um2 : UM) (paramLocation : String) (location : Loc) (params1 : List (String × Param))
    (st : St) (kv : String × Param) : Outcome St :=
  match lookup params1 kv.1 with
  | some p1 => compareParams cx n um2.url um2.method paramLocation kv.1 p1 kv.2 st
  | none =>
    (nodeOfSimple kv.1 kv.2.chain).bind fun nd =>
      .ok (st.addDiff (location.addNode nd)
            (if kv.2.required then Code.AddedRequiredParam else Code.AddedOptionalParam))

def umStep (cx : Ctx) (n : Nat) (u1 : List UM) (paramLocation : String) (st : St) (um2 : UM) : Outcome St :=
  match findUM u1 um2.url um2.method with
  | none => .ok st
  | some um1 =>
    let params1 := getParams um1.item.params um1.op.params paramLocation
    let params2 := getParams um2.item.params um2.op.params paramLocation
    let location : Loc := { url := um2.url, method := um2.method, node := [nameNode (title paramLocation)] }
    (Outcome.foldlM (delParamStep location params2) st (it cx.rev params1)).bind fun st =>
    Outcome.foldlM (cmpParamStep cx n um2 paramLocation location params1) st (it cx.rev params2)

theorem analyseRequestParams_eq (cx : Ctx) (n : Nat) (u1 u2 : List UM) (st : St) :
    analyseRequestParams cx n u1 u2 st =
      Outcome.foldlM (fun st pl => Outcome.foldlM (umStep cx n u1 pl) st (it cx.rev u2)) st paramLocations := rfl

theorem delParamStep_mono (location : Loc) (params2 : List (String × Param)) (st : St) (kv : String × Param) :
    Mono st (delParamStep location params2 st kv) := by
  unfold delParamStep
  split
  · exact Sub.refl _
  · refine Holds.bind (P := fun _ => True) (Holds.of_true _ (fun _ => trivial)) (fun nd _ => ?_)
    exact addDiff_sub _ _ _ _

theorem cmpParamStep_mono (cx : Ctx) (n : Nat) (um2 : UM) (pl : String) (location : Loc) (params1 : List (String × Param))
    (st : St) (kv : String × Param) : Mono st (cmpParamStep cx n um2 pl location params1 st kv) := by
  unfold cmpParamStep
  split
  · exact compareParams_mono _ _ _ _ _ _ _ _ _
  · refine Holds.bind (P := fun _ => True) (Holds.of_true _ (fun _ => trivial)) (fun nd _ => ?_)
    exact addDiff_sub _ _ _ _

theorem umStep_mono (cx : Ctx) (n : Nat) (u1 : List UM) (pl : String) (st : St) (um2 : UM) : Mono st (umStep cx n u1 pl st um2) := by
  unfold umStep
  split
  · exact Sub.refl _
  · dsimp only
    refine Holds.bind (foldlM_mono _ _ st st (Sub.refl _) (fun b a _ => delParamStep_mono _ _ b a)) (fun st1 h1 => ?_)
    exact foldlM_mono _ _ st st1 h1 (fun b a _ => cmpParamStep_mono _ _ _ _ _ _ b a)

theorem analyseRequestParams_mono (cx : Ctx) (n : Nat) (u1 u2 : List UM) (st : St) : Mono st (analyseRequestParams cx n u1 u2 st) := by
  rw [analyseRequestParams_eq]
  refine foldlM_mono _ _ st st (Sub.refl _) (fun b pl _ => ?_)
  exact foldlM_mono _ _ b b (Sub.refl _) (fun b' a _ => umStep_mono _ _ _ _ b' a)

/-! ### the later passes only append -/

theorem analyseEndpointData_sub (rev : Nat) (u1 u2 : List UM) (st : St) : Sub st (analyseEndpointData rev u1 u2 st) := by
  unfold analyseEndpointData
  refine foldl_inv (Sub st) _ _ _ (Sub.refl _) ?_
  intro b um2 _ hb
  split
  · exact hb
  · dsimp only
    refine Sub.trans ?_ (compareDescripton_sub _ _ _ _)
    refine foldl_inv (Sub st) _ _ _ ?_ (fun b' a _ hb' => hb'.trans (addDiff_sub _ _ _ _))
    exact foldl_inv (Sub st) _ _ _ hb (fun b' a _ hb' => hb'.trans (addDiff_sub _ _ _ _))

theorem bodyNode'_true (n : Nat) (os : Option Schema) :
    Holds (fun _ => True) (match os with
      | none => Outcome.ok (nameNode "NoContent")
      | some s => nodeOfProps n "Body" s) := Holds.of_true _ (fun _ => trivial)

theorem analyseResponseParams_mono (cx : Ctx) (n : Nat) (u1 u2 : List UM) (st : St) : Mono st (analyseResponseParams cx n u1 u2 st) := by
  unfold analyseResponseParams
  refine foldlM_mono _ _ st st (Sub.refl _) (fun st um2 _ => ?_)
  split
  · exact Sub.refl _
  · dsimp only
    refine Holds.bind (P := Sub st) ?_ (fun st1 h1 => ?_)
    · refine foldlM_mono _ _ st st (Sub.refl _) (fun b resp1 _ => ?_)
      split
      · exact Sub.refl _
      · refine Holds.bind (bodyNode'_true n resp1.schema) (fun nd _ => ?_)
        exact addDiff_sub _ _ _ _
    · refine foldlM_mono _ _ st st1 h1 (fun st resp2 _ => ?_)
      split
      · refine Holds.bind (P := fun _ => True) (Holds.of_true _ (fun _ => trivial)) (fun nd _ => ?_)
        exact addDiff_sub _ _ _ _
      · skip
        refine Holds.bind (P := Sub st) ?_ (fun st2 h2 => ?_)
        · refine foldlM_mono _ _ st st (Sub.refl _) (fun b hdr2 _ => ?_)
          split
          · refine Holds.bind (P := fun _ => True) (Holds.of_true _ (fun _ => trivial)) (fun ds _ => ?_)
            exact addDiffs_sub _ _ _
          · refine Holds.bind (P := fun _ => True) (Holds.of_true _ (fun _ => trivial)) (fun nd _ => ?_)
            exact addDiff_sub _ _ _ _
        refine Holds.bind (P := Sub st) ?_ (fun st3 h3 => ?_)
        · refine foldlM_mono _ _ st st2 h2 (fun b hdr1 _ => ?_)
          split
          · exact Sub.refl _
          · refine Holds.bind (P := fun _ => True) (Holds.of_true _ (fun _ => trivial)) (fun nd _ => ?_)
            exact addDiff_sub _ _ _ _
        refine Holds.bind (bodyNode'_true n _) (fun nd _ => ?_)
        have h4 : ∀ l : Loc, Sub st (st3.compareDescripton l (by assumption : Response).desc resp2.desc) :=
          fun l => h3.trans (compareDescripton_sub _ _ _ _)
        split
        · refine Holds.bind (P := fun _ => True) (Holds.of_true _ (fun _ => trivial)) (fun nd' _ => ?_)
          exact (h4 _).trans (addDiff_sub _ _ _ _)
        · refine Holds.bind (P := fun _ => True) (Holds.of_true _ (fun _ => trivial)) (fun nd' _ => ?_)
          exact Mono.trans (h4 _) (compareSchema_mono cx n _ _ _ _)
        · refine Holds.bind (P := fun _ => True) (Holds.of_true _ (fun _ => trivial)) (fun nd' _ => ?_)
          exact (h4 _).trans (addDiff_sub _ _ _ _)
        · exact h4 _

theorem analyseDefinitions_mono (cx : Ctx) (n : Nat) (st : St) : Mono st (analyseDefinitions cx n st) := by
  unfold analyseDefinitions
  dsimp only
  refine Holds.bind (P := Sub st) ?_ (fun st1 h1 => ?_)
  · refine foldlM_mono _ _ st st (Sub.refl _) (fun b kv _ => ?_)
    split
    · exact Sub.refl _
    · skip
      split
      · exact compareSchema_mono cx n _ _ _ _
      · exact addDiffs_sub _ _ _
  · simp only [holds_ok]
    refine foldl_inv (Sub st) _ _ _ h1 (fun b kv _ hb => ?_)
    split
    · exact hb
    · exact hb.trans (addDiffs_sub _ _ _)

/-! ### reaching one parameter -/

/-- a Breaking entry is recorded -/
def HasBreaking (st : St) : Prop := ∃ d ∈ st.diffs, d.compat = Compat.Breaking

theorem HasBreaking.sub {a b : St} (h : HasBreaking a) (hs : Sub a b) : HasBreaking b := by
  obtain ⟨d, hd, hb⟩ := h
  exact ⟨d, hs d hd, hb⟩

/-- if one element's step establishes `Q` and every step preserves it, the fold establishes it -/
theorem foldlM_reach {α β} (Q : β → Prop) (f : β → α → Outcome β) (x : α) :
    ∀ (l : List α), x ∈ l → (∀ b, Holds Q (f b x)) → (∀ b a, Q b → Holds Q (f b a)) → ∀ b, Holds Q (foldlM f b l)
  | [], h, _, _, _ => by cases h
  | a :: as, h, hhit, hpres, b => by
    simp only [foldlM]
    by_cases e : x = a
    · subst e
      refine Holds.bind (hhit b) (fun b' hb' => ?_)
      exact foldlM_holds Q f as b' hb' (fun b a _ hb => hpres b a hb)
    · have hx : x ∈ as := by
        rcases List.mem_cons.mp h with h | h
        · exact absurd h e
        · exact h
      refine Holds.bind (P := fun _ => True) (Holds.of_true _ (fun _ => trivial)) (fun b' _ => ?_)
      exact foldlM_reach Q f x as hx hhit hpres b'

theorem addDiffs_records (loc : Loc) (td : TDiff) (hne : td.change ≠ Code.NoChangeDetected) :
    ∀ (ds : List TDiff) (st : St), td ∈ ds → ∃ d ∈ (st.addDiffs loc ds).diffs, d.code = td.change ∧ d.compat = getCompatibilityForChange td.change (loc.response > 0)
  | [], _, h => by cases h
  | x :: xs, st, h => by
    by_cases e : td = x
    · subst e
      have hstep : ∃ d ∈ (st.addTypeDiff loc td).diffs, d.code = td.change ∧ d.compat = getCompatibilityForChange td.change (loc.response > 0) := by
        simp only [St.addTypeDiff, St.addDiff]
        exact ⟨_, List.mem_append_right _ (List.mem_singleton_self _), rfl, rfl⟩
      obtain ⟨d, hd, hp⟩ := hstep
      refine ⟨d, ?_, hp⟩
      have : st.addDiffs loc (td :: xs) = (st.addTypeDiff loc td).addDiffs loc xs := by
        simp [St.addDiffs, hne]
      rw [this]
      exact addDiffs_sub _ _ _ d hd
    · have hx : td ∈ xs := by
        rcases List.mem_cons.mp h with h | h
        · exact absurd h e
        · exact h
      have : st.addDiffs loc (x :: xs) = (if x.change = Code.NoChangeDetected then st else st.addTypeDiff loc x).addDiffs loc xs := by
        simp [St.addDiffs]
      rw [this]
      exact addDiffs_records loc td hne xs _ hx

/-- compareParams records as Breaking every request-breaking code that CompareProps finds on the parameter's own level -/
theorem compareParams_hits (cx : Ctx) (n : Nat) (url method location name : String) (p1 p2 : Param) (st : St)
    (ds : List TDiff) (hcmp : compareProps n (forChain p1.chain) (forChain p2.chain) = .ok ds)
    (td : TDiff) (htd : td ∈ ds) (hne : td.change ≠ Code.NoChangeDetected)
    (hbr : getCompatibilityForChange td.change false = Compat.Breaking) :
    Holds HasBreaking (compareParams cx n url method location name p1 p2 st) := by
  unfold compareParams
  dsimp only
  refine Holds.bind (P := fun (r : Loc × St) => r.1.response = 0) ?_ (fun r hr => ?_)
  · split
    · refine Holds.bind (P := fun (cl : Loc) => cl.response = 0) ?_ (fun cl hcl => ?_)
      · split
        · refine Holds.bind (P := fun _ => True) (Holds.of_true _ (fun _ => trivial)) (fun nd _ => ?_)
          simp [Loc.addNode]
        · simp [Loc.addNode]
      · exact Holds.bind (P := fun _ => True) (Holds.of_true _ (fun _ => trivial)) (fun _ _ => by simpa using hcl)
    · simp [Loc.addNode]
  · rw [hcmp]
    simp only [ok_bind']
    refine Holds.bind (P := fun _ => True) (Holds.of_true _ (fun _ => trivial)) (fun nd _ => ?_)
    obtain ⟨d, hd, _, hcompat⟩ := addDiffs_records (r.1.addNode nd) td hne ds r.2 htd
    have hb : HasBreaking (r.2.addDiffs (r.1.addNode nd) ds) := by
      refine ⟨d, hd, ?_⟩
      rw [hcompat]
      simp only [Loc.addNode, hr, gt_iff_lt, Nat.lt_irrefl, decide_false]
      exact hbr
    exact Holds.mono (compareSimpleSchema_mono _ _ _ _) (fun st' hs => hb.sub ((addDiffs_sub _ _ _).trans hs))

theorem HasBreaking.keep {st : St} {x : Outcome St} (h : HasBreaking st) (hx : Mono st x) : Holds HasBreaking x :=
  Holds.mono hx (fun _ hs => h.sub hs)

theorem umStep_hits (cx : Ctx) (n : Nat) (u1 : List UM) (pl : String) (um1 um2 : UM)
    (hf : findUM u1 um2.url um2.method = some um1) (name : String) (p1 p2 : Param)
    (h1 : lookup (getParams um1.item.params um1.op.params pl) name = some p1)
    (h2 : (name, p2) ∈ getParams um2.item.params um2.op.params pl)
    (ds : List TDiff) (hcmp : compareProps n (forChain p1.chain) (forChain p2.chain) = .ok ds)
    (td : TDiff) (htd : td ∈ ds) (hne : td.change ≠ Code.NoChangeDetected)
    (hbr : getCompatibilityForChange td.change false = Compat.Breaking) (b : St) :
    Holds HasBreaking (umStep cx n u1 pl b um2) := by
  unfold umStep
  rw [hf]
  dsimp only
  refine Holds.bind (P := fun _ => True) (Holds.of_true _ (fun _ => trivial)) (fun st1 _ => ?_)
  refine foldlM_reach HasBreaking _ (name, p2) _ ((it_mem _ _ _).mpr h2) ?_ ?_ st1
  · intro b'
    unfold cmpParamStep
    simp only [h1]
    exact compareParams_hits cx n _ _ _ _ p1 p2 b' ds hcmp td htd hne hbr
  · intro b' a hb'
    exact hb'.keep (cmpParamStep_mono _ _ _ _ _ _ b' a)

theorem analyseRequestParams_hits (cx : Ctx) (n : Nat) (u1 u2 : List UM) (pl : String) (hpl : pl ∈ paramLocations)
    (um1 um2 : UM) (hum2 : um2 ∈ u2) (hf : findUM u1 um2.url um2.method = some um1) (name : String) (p1 p2 : Param)
    (h1 : lookup (getParams um1.item.params um1.op.params pl) name = some p1)
    (h2 : (name, p2) ∈ getParams um2.item.params um2.op.params pl)
    (ds : List TDiff) (hcmp : compareProps n (forChain p1.chain) (forChain p2.chain) = .ok ds)
    (td : TDiff) (htd : td ∈ ds) (hne : td.change ≠ Code.NoChangeDetected)
    (hbr : getCompatibilityForChange td.change false = Compat.Breaking) (st : St) :
    Holds HasBreaking (analyseRequestParams cx n u1 u2 st) := by
  rw [analyseRequestParams_eq]
  refine foldlM_reach HasBreaking _ pl _ hpl ?_ ?_ st
  · intro b
    refine foldlM_reach HasBreaking _ um2 _ ((it_mem _ _ _).mpr hum2) ?_ ?_ b
    · intro b'
      exact umStep_hits cx n u1 pl um1 um2 hf name p1 p2 h1 h2 ds hcmp td htd hne hbr b'
    · intro b' a hb'
      exact hb'.keep (umStep_mono _ _ _ _ b' a)
  · intro b pl' hb
    exact hb.keep (foldlM_mono _ _ b b (Sub.refl _) (fun b' a _ => umStep_mono _ _ _ _ b' a))

/-- **Lifting.** If an endpoint and a parameter (by location and name, path-level or operation-level) exist in both
    documents and CompareProps finds on the parameter's own level a change whose code the request policy classifies
    Breaking, then every report `Analyse` returns contains a Breaking entry — for every fuel and iteration order,
    whatever else the two documents contain. -/
theorem analyse_reports_param_change (fl : Flags) (n : Nat) (a b : Spec) (pl : String) (hpl : pl ∈ paramLocations)
    (um1 um2 : UM) (hum2 : um2 ∈ getURLMethodsFor b) (hf : findUM (getURLMethodsFor a) um2.url um2.method = some um1)
    (name : String) (p1 p2 : Param)
    (h1 : lookup (getParams um1.item.params um1.op.params pl) name = some p1)
    (h2 : (name, p2) ∈ getParams um2.item.params um2.op.params pl)
    (ds : List TDiff) (hcmp : compareProps n (forChain p1.chain) (forChain p2.chain) = .ok ds)
    (td : TDiff) (htd : td ∈ ds) (hne : td.change ≠ Code.NoChangeDetected)
    (hbr : getCompatibilityForChange td.change false = Compat.Breaking) :
    Holds (fun ds => ∃ d ∈ ds, d.compat = Compat.Breaking) (analyse fl n a b) := by
  unfold analyse
  dsimp only
  refine Holds.bind (analyseRequestParams_hits _ n _ _ pl hpl um1 um2 hum2 hf name p1 p2 h1 h2 ds hcmp td htd hne hbr _) (fun st1 hb1 => ?_)
  have hb2 := hb1.sub (analyseEndpointData_sub fl.rev (getURLMethodsFor a) (getURLMethodsFor b) st1)
  refine Holds.bind (hb2.keep (analyseResponseParams_mono _ n _ _ _)) (fun st3 hb3 => ?_)
  refine Holds.bind (hb3.keep (analyseDefinitions_mono _ n _)) (fun st4 hb4 => ?_)
  exact hb4

end Gs.Diff
