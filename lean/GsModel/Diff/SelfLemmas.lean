import GsModel.Base.Hoare
import GsModel.Diff.Analyser
/-
  Helper lemmas for C12 (identity): every comparator reports nothing on equal arguments, and every
  step of the analyser leaves the list of differences unchanged when both documents are the same.
-/
namespace Gs.Diff
open Gs Gs.Gen Gs.Outcome

/-! ### map helpers -/

theorem mem_drop_take {α} (k : Nat) (l : List α) (x : α) : x ∈ l.drop k ++ l.take k ↔ x ∈ l := by
  conv => rhs; rw [← List.take_append_drop k l]
  simp only [List.mem_append]
  exact Or.comm

theorem it_mem {α} (ord : Nat) (l : List α) (x : α) : x ∈ it ord l ↔ x ∈ l := by
  unfold it
  simp only [mem_drop_take]
  split <;> simp

theorem upsert_keys {α} : ∀ (m : List (String × α)) k v, keysDistinct m → keysDistinct (upsert m k v) ∧
    (∀ kv ∈ upsert m k v, kv.1 = k ∨ kv ∈ m)
  | [], k, v, _ => by
    refine ⟨?_, ?_⟩
    · simp [upsert, keysDistinct]
    · intro kv h
      simp only [upsert, List.mem_singleton] at h
      exact Or.inl (by rw [h])
  | (k', v') :: tl, k, v, hd => by
    simp only [upsert]
    split
    · rename_i e
      refine ⟨⟨hd.1, hd.2⟩, ?_⟩
      intro kv h
      rcases List.mem_cons.mp h with h | h
      · left; rw [h]; exact e
      · right; exact List.mem_cons_of_mem _ h
    · rename_i ne
      have ih := upsert_keys tl k v hd.2
      refine ⟨⟨?_, ih.1⟩, ?_⟩
      · intro kv h
        rcases ih.2 kv h with h | h
        · rw [h]; exact fun e => ne e.symm
        · exact hd.1 kv h
      · intro kv h
        rcases List.mem_cons.mp h with h | h
        · right; rw [h]; exact List.mem_cons_self
        · rcases ih.2 kv h with h | h
          · left; exact h
          · right; exact List.mem_cons_of_mem _ h

theorem upsert_distinct {α} (m : List (String × α)) k v (h : keysDistinct m) : keysDistinct (upsert m k v) :=
  (upsert_keys m k v h).1

theorem foldl_upsert_distinct {α β} (g : β → String × α) :
    ∀ (l : List β) (m : List (String × α)), keysDistinct m →
      keysDistinct (l.foldl (fun acc x => upsert acc (g x).1 (g x).2) m)
  | [], _, h => h
  | x :: xs, m, h => foldl_upsert_distinct g xs _ (upsert_distinct m _ _ h)

theorem hasKey_of_mem {α} : ∀ (m : List (String × α)) (kv : String × α), kv ∈ m → hasKey m kv.1 = true
  | [], _, h => by cases h
  | (k, v) :: tl, kv, h => by
    unfold hasKey
    simp only [lookup]
    split
    · rfl
    · rename_i ne
      rcases List.mem_cons.mp h with h | h
      · exact absurd (by rw [h]) ne
      · exact hasKey_of_mem tl kv h

/-! ### comparators on equal arguments -/

@[simp] theorem compareIntValues_self (v : Option Int) (a b : Code) : compareIntValues v v a b = [] := by
  cases v <;> simp [compareIntValues]

@[simp] theorem checkToFromRequired_self (r : Bool) : checkToFromRequired r r = [] := by
  simp [checkToFromRequired]

theorem filter_not_contains_self (l : List String) : l.filter (fun x => !l.contains x) = [] := by
  rw [List.filter_eq_nil_iff]
  intro x hx
  simp [hx]

@[simp] theorem diffsTo_self (l : List String) : diffsTo (some l) l = ([], []) := by
  simp only [diffsTo, filter_not_contains_self, dedup, sortStrs]

@[simp] theorem diffsTo_self_opt (o : Option (List String)) : diffsTo o (o.getD []) = ([], []) := by
  cases o with
  | none => simp [diffsTo]
  | some l => simp

@[simp] theorem compareEnums_self (l : List JVal) : compareEnums l l = [] := by
  simp [compareEnums]

@[simp] theorem checkStringTypeChanges_self (t : Schema) : checkStringTypeChanges [] t t = [] := by
  unfold checkStringTypeChanges
  split
  · simp
  · rfl

@[simp] theorem checkNumericTypeChanges_self (t : Schema) : checkNumericTypeChanges [] t t = [] := by
  unfold checkNumericTypeChanges
  split
  · simp [compareFloatValues]
  · rfl

@[simp] theorem checkRefChangeProps_self (n : Nat) (t : Schema) : checkRefChangeProps n t t = .ok [] := by
  unfold checkRefChangeProps
  simp

@[simp] theorem checkRefChangeSchema_self (n : Nat) (t : Schema) : checkRefChangeSchema n t t = .ok [] := by
  unfold checkRefChangeSchema
  simp

/-- CompareProps reports nothing on equal arguments (it cannot even panic: every type-name helper is only
    reached after a difference has been found). -/
@[simp] theorem compareProps_self (n : Nat) (t : Schema) : compareProps n t t = .ok [] := by
  unfold compareProps
  simp [Outcome.bind]

@[simp] theorem addDiffs_nil (st : St) (loc : Loc) : st.addDiffs loc [] = st := rfl

@[simp] theorem compareDescripton_self (st : St) (loc : Loc) (d : String) : st.compareDescripton loc d d = st := by
  simp [St.compareDescripton]

@[simp] theorem markRefs_diffs (st : St) (l : List String) : (st.markRefs l).diffs = st.diffs := rfl

theorem schemaFromRef_diffs (st : St) (d : Defs) (r : String) : (schemaFromRef st d r).2.diffs = st.diffs := by
  unfold schemaFromRef
  split <;> simp

theorem ifaceNe_self (a : Option JVal) : ifaceNe a a = .ok false := by
  unfold ifaceNe
  cases a <;> simp

/-- compareSimpleSchema leaves the differences unchanged on equal chains. -/
theorem compareSimpleSchema_self (loc : Loc) :
    ∀ (c : List Simple) (st : St), Holds (fun st' => st'.diffs = st.diffs) (compareSimpleSchema loc c c st)
  | [], _ => by simp [compareSimpleSchema]
  | s :: r, st => by
    unfold compareSimpleSchema
    simp only [Bool.and_not_self, Bool.false_eq_true, if_false, Bool.not_and_self, ne_eq, not_true_eq_false,
      ifaceNe_self, ok_bind']
    split
    · exact compareSimpleSchema_self loc r st
    · simp

end Gs.Diff
