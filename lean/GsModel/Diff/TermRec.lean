import GsModel.Diff.Terminates
import GsModel.Diff.Guard
import GsModel.Diff.Lift5
/-
  C12 (termination, RECURSIVE definitions on the first document's side): the visited-key guard ends the recursion.
  Measures:
    * `fitsL n s`   — the schema is at most `n` levels deep WITHOUT following `$ref`s (its own nesting);
    * `fitsP d n s` — the allOf ancestry of the schema, `$ref`s followed, is at most `n` deep (what propertiesFor walks);
    * `Good d K s`  — `s` and every schema nested in it satisfy both with the bound `K`;
    * `hops loc st` — how many `$ref`s of the first document can still be followed at or below `loc`:
                      one if the key of `loc` is not yet visited, plus one if `loc` is a root location (one node), because
                      below depth 2 every location of a subtree has the same key (`addNode_key`).
  Along a path on which only the schema under comparison itself is a `$ref`, compareSchema follows a `$ref` of the first
  document at most `hops` times and descends structurally in between (fuel `hops·(K+1) + depth + K` would be enough).
  The induction is NOT closed here, because the statement is false as soon as allOf members are `$ref`s: propertiesFor
  merges the properties of the whole allOf ancestry WITHOUT the visited-key test, so the structure below a schema is not
  bounded by its own nesting.  The last section proves that: on one valid document the analyser returns for no fuel at all
  (`recursion_through_allOf_is_unbounded`).  The lemmas before it (measures, visited-set monotonicity, the `hops` counter) are
  what a proof for allOf-free recursive definitions would be built from.
-/
namespace Gs.Diff
open Gs Gs.Gen Gs.Outcome

/-! ### measures -/

def fitsL : Nat → Schema → Bool
  | 0, _ => false
  | n+1, s => s.children.all (fitsL n)

/-- the schema propertiesFor reads: the target of a `$ref`, else the schema itself -/
def derefP (d : Defs) (s : Schema) : Option Schema := if s.ref = "" then some s else lookup d s.ref

def fitsP (d : Defs) : Nat → Schema → Bool
  | 0, _ => false
  | n+1, s => match derefP d s with
    | some r => r.allOf.all (fitsP d n)
    | none => true

def goodN (d : Defs) (K : Nat) : Nat → Schema → Bool
  | 0, _ => true
  | n+1, s => fitsL K s && fitsP d K s && s.children.all (goodN d K n)

def Good (d : Defs) (K : Nat) (s : Schema) : Prop := ∀ n, goodN d K n s = true
def GoodDefs (d : Defs) (K : Nat) : Prop := ∀ kv ∈ d, Good d K kv.2

theorem fitsL_mono : ∀ n s, fitsL n s = true → fitsL (n+1) s = true
  | 0, _, h => by simp [fitsL] at h
  | n+1, s, h => by
    rw [fitsL] at h ⊢
    simp only [List.all_eq_true] at h ⊢
    exact fun c hc => fitsL_mono n c (h c hc)

theorem fitsL_le {k n : Nat} (s : Schema) (h : fitsL k s = true) (hkn : k ≤ n) : fitsL n s = true := by
  induction hkn with
  | refl => exact h
  | step _ ih => exact fitsL_mono _ s ih

theorem fitsP_mono (d : Defs) : ∀ n s, fitsP d n s = true → fitsP d (n+1) s = true
  | 0, _, h => by simp [fitsP] at h
  | n+1, s, h => by
    rw [fitsP] at h ⊢
    split
    · rename_i r hr
      simp only [hr, List.all_eq_true] at h
      simp only [List.all_eq_true]
      exact fun c hc => fitsP_mono d n c (h c hc)
    · rfl

theorem fitsP_le (d : Defs) {k n : Nat} (s : Schema) (h : fitsP d k s = true) (hkn : k ≤ n) : fitsP d n s = true := by
  induction hkn with
  | refl => exact h
  | step _ ih => exact fitsP_mono d _ s ih

theorem Good.fitsL {d : Defs} {K : Nat} {s : Schema} (h : Good d K s) : fitsL K s = true := by
  have := h 1
  simp only [goodN, Bool.and_eq_true] at this
  exact this.1.1

theorem Good.fitsP {d : Defs} {K : Nat} {s : Schema} (h : Good d K s) : fitsP d K s = true := by
  have := h 1
  simp only [goodN, Bool.and_eq_true] at this
  exact this.1.2

theorem Good.child {d : Defs} {K : Nat} {s c : Schema} (h : Good d K s) (hc : c ∈ s.children) : Good d K c := by
  intro n
  have := h (n+1)
  simp only [goodN, Bool.and_eq_true, List.all_eq_true] at this
  exact this.2 c hc

theorem Good.item {d : Defs} {K : Nat} {s i : Schema} (h : Good d K s) (hi : s.itemOne = some i) : Good d K i :=
  h.child (by simp [Schema.children, hi])
theorem Good.prop {d : Defs} {K : Nat} {s : Schema} {kv : String × Schema} (h : Good d K s) (hi : kv ∈ s.props) : Good d K kv.2 :=
  h.child (by simp only [Schema.children, List.mem_append, List.mem_map]; exact Or.inl (Or.inl ⟨kv, hi, rfl⟩))
theorem Good.allOf {d : Defs} {K : Nat} {s a : Schema} (h : Good d K s) (hi : a ∈ s.allOf) : Good d K a :=
  h.child (by simp only [Schema.children, List.mem_append]; exact Or.inr hi)
theorem GoodDefs.lookup {d : Defs} {K : Nat} (h : GoodDefs d K) {k : String} {t : Schema} (hl : Gs.lookup d k = some t) : Good d K t :=
  h (k, t) (lookup_mem d k t hl)

theorem fitsL_child {n : Nat} {s c : Schema} (h : fitsL (n+1) s = true) (hc : c ∈ s.children) : fitsL n c = true := by
  rw [fitsL] at h
  simp only [List.all_eq_true] at h
  exact h c hc
theorem fitsL_item {n : Nat} {s i : Schema} (h : fitsL (n+1) s = true) (hi : s.itemOne = some i) : fitsL n i = true :=
  fitsL_child h (by simp [Schema.children, hi])
theorem fitsL_prop {n : Nat} {s : Schema} {kv : String × Schema} (h : fitsL (n+1) s = true) (hi : kv ∈ s.props) : fitsL n kv.2 = true :=
  fitsL_child h (by simp only [Schema.children, List.mem_append, List.mem_map]; exact Or.inl (Or.inl ⟨kv, hi, rfl⟩))
theorem fitsL_pos {n : Nat} {s : Schema} (h : fitsL n s = true) : ∃ m, n = m + 1 := by
  cases n with
  | zero => simp [fitsL] at h
  | succ m => exact ⟨m, rfl⟩

/-! ### helpers: enough fuel under the local measure -/

theorem typeOfProps_termL : ∀ (n k : Nat) (s : Schema), fitsL k s = true → k ≤ n → NoFuel (typeOfProps n s)
  | 0, k, s, h, hk => by
    have : k = 0 := Nat.le_zero.mp hk
    subst this
    simp [fitsL] at h
  | n+1, k, s, h, hk => by
    unfold typeOfProps
    split
    · simp
    · split
      · simp
      · simp only
        split
        · split
          · simp
          · split
            · simp
            · rename_i i hi
              obtain ⟨m, hm⟩ := fitsL_pos h
              subst hm
              exact Term.bind (typeOfProps_termL n m i (fitsL_item h hi) (by omega)) (fun _ _ => by simp)
        · simp

theorem typeOfSchema_termL (n k : Nat) (s : Schema) (h : fitsL k s = true) (hk : k ≤ n + 1) : NoFuel (typeOfSchema n s) := by
  unfold typeOfSchema
  split
  · simp
  · split
    · simp
    · split
      · split
        · simp
        · split
          · simp
          · rename_i i hi
            obtain ⟨m, hm⟩ := fitsL_pos h
            subst hm
            exact Term.bind (typeOfProps_termL n m i (fitsL_item h hi) (by omega)) (fun _ _ => by simp)
      · simp

theorem typeStrOfSchema_termL (n k : Nat) (s : Schema) (h : fitsL k s = true) (hk : k ≤ n + 1) : NoFuel (typeStrOfSchema n s) :=
  Term.bind (typeOfSchema_termL n k s h hk) (fun _ _ => by simp)
theorem typeStrOfProps_termL (n k : Nat) (s : Schema) (h : fitsL k s = true) (hk : k ≤ n) : NoFuel (typeStrOfProps n s) :=
  Term.bind (typeOfProps_termL n k s h hk) (fun _ _ => by simp)
theorem nodeOfProps_termL (n k : Nat) (name : String) (s : Schema) (h : fitsL k s = true) (hk : k ≤ n) : NoFuel (nodeOfProps n name s) :=
  Term.bind (typeOfProps_termL n k s h hk) (fun _ _ => by simp)

theorem checkRefChangeProps_termL (n k : Nat) (t1 t2 : Schema) (h1 : fitsL k t1 = true) (h2 : fitsL k t2 = true) (hk : k ≤ n) :
    NoFuel (checkRefChangeProps n t1 t2) := by
  unfold checkRefChangeProps
  split
  · split
    · exact Term.bind (typeStrOfProps_termL n k t1 h1 hk) (fun _ _ => Term.bind (typeStrOfProps_termL n k t2 h2 hk) (fun _ _ => by simp))
    · simp
  · split
    · exact Term.bind (typeStrOfProps_termL n k t1 h1 hk) (fun _ _ => Term.bind (typeStrOfProps_termL n k t2 h2 hk) (fun _ _ => by simp))
    · simp

theorem checkRefChangeSchema_termL (n k : Nat) (t1 t2 : Schema) (h1 : fitsL k t1 = true) (h2 : fitsL k t2 = true) (hk : k ≤ n + 1) :
    NoFuel (checkRefChangeSchema n t1 t2) := by
  unfold checkRefChangeSchema
  split
  · split
    · exact Term.bind (typeStrOfSchema_termL n k t1 h1 hk) (fun _ _ => Term.bind (typeStrOfSchema_termL n k t2 h2 hk) (fun _ _ => by simp))
    · simp
  · split
    · exact Term.bind (typeStrOfSchema_termL n k t1 h1 hk) (fun _ _ => Term.bind (typeStrOfSchema_termL n k t2 h2 hk) (fun _ _ => by simp))
    · simp

theorem compareProps_termL (n k : Nat) (t1 t2 : Schema) (h1 : fitsL k t1 = true) (h2 : fitsL k t2 = true) (hk : k ≤ n) :
    NoFuel (compareProps n t1 t2) := by
  unfold compareProps
  dsimp only
  refine term_ite (fun _ => ?_) (fun _ => ?_)
  · exact Term.bind (typeOfProps_termL n k t1 h1 hk) (fun _ _ => Term.bind (typeOfProps_termL n k t2 h2 hk) (fun _ _ => by simp))
  refine term_ite (fun _ => by simp) (fun _ => ?_)
  refine Term.bind (checkRefChangeProps_termL n k t1 t2 h1 h2 hk) (fun rd _ => ?_)
  refine term_ite (fun _ => by simp) (fun _ => ?_)
  refine term_ite (fun _ => by simp) (fun _ => ?_)
  refine term_ite (fun _ => by simp) (fun _ => by simp)

/-- propertiesFor has enough fuel under the allOf-ancestry measure, and what it returns is Good -/
theorem propertiesFor_termP (d : Defs) (K : Nat) (hd : GoodDefs d K) :
    ∀ (n k : Nat) (s : Schema), fitsP d k s = true → k ≤ n → Good d K s →
      Term (fun r => ∀ kv ∈ r.1, Good d K kv.2.schema) (propertiesFor d n s)
  | 0, k, s, h, hk, _ => by
    have : k = 0 := Nat.le_zero.mp hk
    subst this
    simp [fitsP] at h
  | n+1, k, s, h, hk, hg => by
    cases k with
    | zero => simp [fitsP] at h
    | succ m =>
    unfold propertiesFor
    simp only
    refine Term.bind (P := fun (r : Schema × List String) => Good d K r.1 ∧ derefP d s = some r.1) ?_ ?_
    · split
      · rename_i hr
        split
        · simp
        · rename_i t ht
          simp only [term_ok]
          exact ⟨hd.lookup ht, by simp [derefP, hr, ht]⟩
      · rename_i hr
        simp only [term_ok]
        exact ⟨hg, by simp only [derefP]; simp at hr; simp [hr]⟩
    · intro r hr
      have hall : ∀ a ∈ r.1.allOf, fitsP d m a = true := by
        rw [fitsP, hr.2] at h
        simpa [List.all_eq_true] using h
      refine foldlM_term (fun (acc : List (String × PropDefn) × List String) => ∀ kv ∈ acc.1, Good d K kv.2.schema) _ _ _ ?_ ?_
      · simp only
        split
        · exact foldl_upsert_all (fun (p : PropDefn) => Good d K p.schema)
            (fun (kv : String × Schema) => (kv.1, ({ schema := kv.2, required := r.1.required.contains kv.1 } : PropDefn)))
            _ [] (fun _ h => by cases h) (fun kv hkv => hr.1.prop hkv)
        · intro _ h; cases h
      · intro acc a ha hacc
        refine Term.bind (propertiesFor_termP d K hd n m a (hall a ha) (by omega) (hr.1.allOf ha)) ?_
        intro pm hpm
        simp only [term_ok]
        exact foldl_upsert_all (fun (p : PropDefn) => Good d K p.schema) (fun (kv : String × PropDefn) => (kv.1, kv.2))
          _ _ hacc (fun kv hkv => hpm kv hkv)

/-! ### the visited set only grows -/

def VisSub (st st' : St) : Prop := ∀ k, k ∈ st.visited → k ∈ st'.visited

theorem VisSub.refl (st : St) : VisSub st st := fun _ h => h
theorem VisSub.trans {a b c : St} (h1 : VisSub a b) (h2 : VisSub b c) : VisSub a c := fun k h => h2 k (h1 k h)
theorem VisSub.of_eq {a b : St} (h : b.visited = a.visited) : VisSub a b := fun k hk => by rw [h]; exact hk

abbrev VisMono (st : St) (x : Outcome St) : Prop := Holds (VisSub st) x

theorem VisMono.trans {a b : St} {x : Outcome St} (h : VisSub a b) (hx : VisMono b x) : VisMono a x :=
  Holds.mono hx (fun _ hc => h.trans hc)

theorem addDiff_vis (st : St) (loc : Loc) (c : Code) (info : String) : (st.addDiff loc c info).visited = st.visited := rfl
theorem addTypeDiff_vis (st : St) (loc : Loc) (d : TDiff) : (st.addTypeDiff loc d).visited = st.visited := rfl

theorem addDiffs_vis (st : St) (loc : Loc) (ds : List TDiff) : (st.addDiffs loc ds).visited = st.visited := by
  unfold St.addDiffs
  refine foldl_inv (fun (s : St) => s.visited = st.visited) _ _ _ rfl ?_
  intro b a _ hb
  split
  · exact hb
  · rw [addTypeDiff_vis]; exact hb

theorem compareDescripton_vis (st : St) (loc : Loc) (d1 d2 : String) : (st.compareDescripton loc d1 d2).visited = st.visited := by
  unfold St.compareDescripton
  split <;> rfl

theorem schemaFromRef_vis (st : St) (d : Defs) (r : String) : (schemaFromRef st d r).2.visited = st.visited := by
  unfold schemaFromRef
  split <;> simp [St.markRefs]

theorem foldlM_vis {α} (f : St → α → Outcome St) (l : List α) (st0 st : St) (h0 : VisSub st0 st)
    (hf : ∀ b a, a ∈ l → VisMono b (f b a)) : VisMono st0 (foldlM f st l) :=
  foldlM_holds (VisSub st0) f l st h0 (fun b a ha hb => VisMono.trans hb (hf b a ha))

theorem resolveBoth_vis (cx : Ctx) (loc : Loc) (s1 s2 : Schema) (st : St) :
    Holds (fun r => match r with
      | none => True
      | some (_, _, st') => VisSub st st') (resolveBoth cx loc s1 s2 st) := by
  unfold resolveBoth
  dsimp only
  refine Holds.bind (P := fun r => match r with
      | none => True
      | some (_, st') => VisSub st st') ?_ ?_
  · split
    · refine Holds.bind (P := fun _ => True) (Holds.of_true _ (fun _ => trivial)) (fun key _ => ?_)
      split
      · simp
      · simp only [holds_ok]
        intro k hk
        rw [schemaFromRef_vis]
        exact List.mem_append_left _ hk
    · simp only [holds_ok]
      exact VisSub.refl _
  · intro r hr
    cases r with
    | none => simp
    | some p =>
      obtain ⟨o1, st'⟩ := p
      simp only [holds_ok]
      split
      · exact VisSub.trans hr (VisSub.of_eq (schemaFromRef_vis _ _ _))
      · exact hr

abbrev CmpVis (cmp : Cmp) : Prop := ∀ loc o1 o2 st, VisMono st (cmp loc o1 o2 st)

theorem compareItems_vis (cmp : Cmp) (hc : CmpVis cmp) (n : Nat) (loc : Loc) (t1 t2 : Schema) (st : St) :
    VisMono st (compareItems cmp n loc t1 t2 st) := by
  unfold compareItems
  split
  · split
    · split
      · exact hc _ _ _ _
      · exact VisSub.refl _
    · refine Holds.bind (P := fun _ => True) (Holds.of_true _ (fun _ => trivial)) (fun _ _ => ?_)
      refine Holds.bind (P := fun _ => True) (Holds.of_true _ (fun _ => trivial)) (fun _ _ => ?_)
      exact VisSub.of_eq (addDiffs_vis _ _ _)
  · exact VisSub.refl _

theorem propStep_vis (cmp : Cmp) (hc : CmpVis cmp) (n : Nat) (loc : Loc) (props2 : List (String × PropDefn))
    (acc : St × List (Loc × Code)) (kv : String × PropDefn) :
    Holds (fun (r : St × List (Loc × Code)) => VisSub acc.1 r.1) (propStep cmp n loc props2 acc kv) := by
  unfold propStep
  refine Holds.bind (P := fun _ => True) (Holds.of_true _ (fun _ => trivial)) (fun childLoc _ => ?_)
  split
  · dsimp only
    exact Holds.bind (hc childLoc _ _ acc.1) (fun st' h => h)
  · exact VisSub.refl _

theorem compareProperties_vis (cx : Ctx) (cmp : Cmp) (hc : CmpVis cmp) (n : Nat) (loc : Loc) (t1 t2 : Schema) (st : St) :
    VisMono st (compareProperties cx cmp n loc t1 t2 st) := by
  unfold compareProperties
  split
  · exact VisSub.refl _
  · refine Holds.bind (P := fun _ => True) (Holds.of_true _ (fun _ => trivial)) (fun pr1 _ => ?_)
    refine Holds.bind (P := fun _ => True) (Holds.of_true _ (fun _ => trivial)) (fun pr2 _ => ?_)
    dsimp only
    refine Holds.bind (P := fun (r : St × List (Loc × Code)) => VisSub st r.1) ?_ (fun r hr => ?_)
    · refine foldlM_holds (fun (r : St × List (Loc × Code)) => VisSub st r.1) _ _ _ (VisSub.of_eq rfl) ?_
      intro acc kv _ hacc
      exact Holds.mono (propStep_vis cmp hc n loc pr2.1 acc kv) (fun _ h => hacc.trans h)
    · refine Holds.bind (P := fun _ => True) (Holds.of_true _ (fun _ => trivial)) (fun pd _ => ?_)
      simp only [holds_ok]
      refine foldl_inv (VisSub st) _ _ _ hr ?_
      intro b a _ hb
      exact hb.trans (VisSub.of_eq (addDiff_vis _ _ _ _))

theorem compareSchema_vis (cx : Ctx) : ∀ n, CmpVis (compareSchema cx n)
  | 0 => by intro loc o1 o2 st; simp [compareSchema, VisMono]
  | n+1 => by
    intro loc o1 o2 st
    unfold compareSchema
    cases o1 with
    | none => simp [VisMono]
    | some s1 =>
    cases o2 with
    | none => simp [VisMono]
    | some s2 =>
    dsimp only
    refine Holds.bind (P := fun _ => True) (Holds.of_true _ (fun _ => trivial)) (fun refDiffs _ => ?_)
    split
    · simp only [holds_ok]
      refine foldl_inv (VisSub st) _ _ _ (VisSub.refl _) ?_
      intro b a _ hb
      exact hb.trans (VisSub.of_eq (addTypeDiff_vis _ _ _))
    · refine Holds.bind (resolveBoth_vis cx loc s1 s2 st) ?_
      intro r hr
      match r, hr with
      | none, _ => exact VisSub.refl _
      | some (none, _, _), _ => trivial
      | some (some t1, none, _), _ => trivial
      | some (some t1, some t2, st'), h =>
        dsimp only
        refine Holds.bind (P := fun _ => True) (Holds.of_true _ (fun _ => trivial)) (fun typeDiffs _ => ?_)
        have h' : VisSub st (st'.compareDescripton loc t1.desc t2.desc) := VisSub.trans h (VisSub.of_eq (compareDescripton_vis _ _ _ _))
        split
        · exact h'.trans (VisSub.of_eq (addDiffs_vis _ _ _))
        · refine Holds.bind (VisMono.trans h' (compareItems_vis _ (compareSchema_vis cx n) n loc t1 t2 _)) (fun st'' h'' => ?_)
          exact VisMono.trans h'' (compareProperties_vis cx _ (compareSchema_vis cx n) n loc t1 t2 st'')

/-! ### how many `$ref`s of the first document can still be followed below a location -/

def keyVisited (loc : Loc) (st : St) : Bool :=
  match schemaLocationKey loc with
  | .ok k => st.visited.contains k
  | _ => true

def hops (loc : Loc) (st : St) : Nat := (if keyVisited loc st then 0 else 1) + (if loc.node.length ≤ 1 then 1 else 0)

theorem keyVisited_mono {loc : Loc} {st st' : St} (h : VisSub st st') (hk : keyVisited loc st = true) : keyVisited loc st' = true := by
  unfold keyVisited at hk ⊢
  split
  · rename_i k hk'
    simp only [hk'] at hk
    simp only [List.contains_eq_mem, decide_eq_true_eq] at hk ⊢
    exact h k hk
  · rfl

theorem hops_anti {loc : Loc} {st st' : St} (h : VisSub st st') : hops loc st' ≤ hops loc st := by
  unfold hops
  by_cases hk : keyVisited loc st = true
  · simp [hk, keyVisited_mono h hk]
  · simp only [hk, Bool.false_eq_true, if_false]
    split <;> omega

theorem hops_addNode_le (loc : Loc) (hl : loc.node ≠ []) (c : NodeSeg) (st : St) : hops (loc.addNode c) st ≤ hops loc st := by
  cases hn : loc.node with
  | nil => exact absurd hn hl
  | cons a rest =>
    cases rest with
    | nil =>
      -- a root location: the child has two nodes
      have h1 : hops (loc.addNode c) st ≤ 1 := by
        unfold hops
        simp only [Loc.addNode, hn, List.cons_append, List.nil_append, List.length_cons, List.length_nil]
        split <;> simp
      have h2 : 1 ≤ hops loc st := by
        unfold hops
        simp only [hn, List.length_cons, List.length_nil]
        split <;> simp
      omega
    | cons b rest' =>
      have hk : schemaLocationKey (loc.addNode c) = schemaLocationKey loc := addNode_key loc a b rest' c hn
      unfold hops keyVisited
      rw [hk]
      simp [Loc.addNode, hn]

theorem hops_after_mark (loc : Loc) (st st' : St) (k : String) (hk : schemaLocationKey loc = .ok k)
    (hfresh : st.visited.contains k = false) (hmark : k ∈ st'.visited) : hops loc st' + 1 = hops loc st := by
  have hf : k ∉ st.visited := by
    intro hm
    simp [hm] at hfresh
  unfold hops keyVisited
  simp only [hk, List.contains_eq_mem, hmark, decide_true, if_true, hf, decide_false, Bool.false_eq_true, if_false]
  omega

theorem addChildDiffNode_shape (n : Nat) (l : Loc) (name : String) (s : Schema) :
    Holds (fun l' => ∃ nd, l' = l.addNode nd) (addChildDiffNode n l name s) := by
  unfold addChildDiffNode
  refine Holds.bind (P := fun _ => True) (Holds.of_true _ (fun _ => trivial)) (fun nd _ => ?_)
  exact ⟨nd, rfl⟩

/-! ### what the guard does NOT cover: recursion through allOf

  The visited-key test is made only where the schema being compared IS a `$ref`.  propertiesFor follows the `$ref`s of
  allOf members on its own, without any test: an inline schema with properties of its own and an allOf member that refers
  back to an enclosing definition is compared again and again, one level deeper each time. -/

/-- A: {properties: {own}, allOf: [$ref B]},  B: {properties: {x: {properties: {q}, allOf: [$ref A]}, n}} — a valid document -/
def recX : Schema := { type := ["object"], hasProps := true, props := [("q", { type := ["string"] })], allOf := [{ ref := "A" }] }
def recA : Schema := { type := ["object"], hasProps := true, props := [("own", { type := ["string"] })], allOf := [{ ref := "B" }] }
def recB : Schema := { type := ["object"], hasProps := true, props := [("x", recX), ("n", { type := ["string"] })] }
def recSpec : Spec :=
  { paths := [{ url := "/a", ops := [{ method := "get", responses := [{ code := 200, desc := "ok", schema := some recX }] }] }],
    defs := [("A", recA), ("B", recB)] }

def isFuel {α} : Outcome α → Bool
  | .fuel => true
  | _ => false

def NotOk {α} (x : Outcome α) : Prop := x.isOk = false

theorem NotOk.bind_left {α β} {x : Outcome α} (f : α → Outcome β) (h : NotOk x) : NotOk (x.bind f) := by
  cases x with
  | ok a => simp [NotOk, Outcome.isOk] at h
  | panic w => rfl
  | fuel => rfl

theorem NotOk.bind_right {α β} (x : Outcome α) {f : α → Outcome β} (h : ∀ a, NotOk (f a)) : NotOk (x.bind f) := by
  cases x with
  | ok a => exact h a
  | panic w => rfl
  | fuel => rfl

theorem foldlM_notOk {α β} (f : β → α → Outcome β) (x : α) (hx : ∀ b, NotOk (f b x)) :
    ∀ (l : List α) (b : β), x ∈ l → NotOk (foldlM f b l)
  | [], _, h => by cases h
  | a :: as, b, h => by
    simp only [foldlM]
    by_cases e : x = a
    · subst e
      exact NotOk.bind_left _ (hx b)
    · have hm : x ∈ as := by
        rcases List.mem_cons.mp h with h | h
        · exact absurd h e
        · exact h
      exact NotOk.bind_right _ (fun b' => foldlM_notOk f x hx as b' hm)

def recDefs : Defs := [("A", recA), ("B", recB)]
def recCx (rev : Nat) : Ctx := { defs1 := recDefs, defs2 := recDefs, rev := rev }

/-- the merged properties of `x` (own `q`, then `own` of A, then `x` and `n` of B), once the fuel reaches B -/
theorem propertiesFor_recX (m : Nat) :
    propertiesFor recDefs (m+3) recX =
      .ok ([("q", { schema := { type := ["string"] }, required := false }), ("own", { schema := { type := ["string"] }, required := false }),
            ("x", { schema := recX, required := false }), ("n", { schema := { type := ["string"] }, required := false })], ["A", "B"]) := by
  simp [propertiesFor, recX, recA, recB, recDefs, lookup, upsert, Outcome.bind, Outcome.foldlM]

theorem propertiesFor_recX_small : propertiesFor recDefs 0 recX = .fuel ∧ NotOk (propertiesFor recDefs 1 recX) ∧ NotOk (propertiesFor recDefs 2 recX) := by
  refine ⟨rfl, ?_, ?_⟩ <;> simp [NotOk, propertiesFor, recX, recA, recB, recDefs, lookup, upsert, Outcome.bind, Outcome.foldlM, Outcome.isOk]

/-- **comparing `x` with itself never returns**, whatever the fuel, the location and the state: each level reaches `x` again -/
theorem recX_never_returns (rev : Nat) : ∀ (n : Nat) (loc : Loc) (st : St), NotOk (compareSchema (recCx rev) n loc (some recX) (some recX) st)
  | 0, _, _ => rfl
  | n+1, loc, st => by
    unfold compareSchema
    have href : recX.ref = "" := rfl
    simp only [checkRefChangeSchema_self, ok_bind', List.isEmpty_nil, Bool.not_true, Bool.false_eq_true, if_false,
      resolveBoth_norefs (recCx rev) loc recX recX st href href, compareDescripton_self, compareProps_self]
    have hitems : ∀ st0, compareItems (compareSchema (recCx rev) n) n loc recX recX st0 = .ok st0 := by
      intro st0; simp [compareItems, recX, isArrayType]
    rw [hitems]
    simp only [ok_bind']
    unfold compareProperties
    have hp : (!recX.hasProps && !recX.hasProps) = false := rfl
    simp only [hp, Bool.false_eq_true, if_false]
    -- the fuel given to propertiesFor: below 3 it is exhausted there, from 3 on the merged list contains x
    match n with
    | 0 => exact NotOk.bind_left _ (by rw [show (recCx rev).defs1 = recDefs from rfl, propertiesFor_recX_small.1]; rfl)
    | 1 => exact NotOk.bind_left _ (by rw [show (recCx rev).defs1 = recDefs from rfl]; exact propertiesFor_recX_small.2.1)
    | 2 => exact NotOk.bind_left _ (by rw [show (recCx rev).defs1 = recDefs from rfl]; exact propertiesFor_recX_small.2.2)
    | m+3 =>
      rw [show (recCx rev).defs1 = recDefs from rfl, show (recCx rev).defs2 = recDefs from rfl, propertiesFor_recX m]
      simp only [ok_bind']
      refine NotOk.bind_left _ ?_
      refine foldlM_notOk _ ("x", { schema := recX, required := false }) ?_ _ _ ((it_mem _ _ _).mpr (by simp))
      intro acc
      unfold propStep
      refine NotOk.bind_right _ (fun childLoc => ?_)
      simp only [lookup, String.reduceEq, if_false, if_true]
      exact NotOk.bind_left _ (recX_never_returns rev (m+3) childLoc acc.1)

theorem it_singleton {α} (ord : Nat) (x : α) : it ord [x] = [x] := by
  unfold it
  have h : (if ord % 2 = 1 then [x].reverse else [x]) = [x] := by split <;> rfl
  rw [h]
  cases hk : ord / 2 with
  | zero => rfl
  | succ k => simp

def recResp : Response := { code := 200, desc := "ok", schema := some recX }
def recOp : Operation := { method := "get", responses := [recResp] }
def recUM : UM := { url := "/a", method := "get", item := { url := "/a", ops := [recOp] }, op := recOp }

/-- **comparing this valid document with itself never returns a report**, for every fuel and every iteration order: the
    recursion of the analyser has no bound here (the real `swagger diff` dies with a stack overflow / out of memory on it) -/
theorem recursion_through_allOf_is_unbounded (fl : Flags) (n : Nat) : NotOk (analyse fl n recSpec recSpec) := by
  unfold analyse
  dsimp only
  refine NotOk.bind_right _ (fun st1 => ?_)
  refine NotOk.bind_left _ ?_
  rw [analyseResponseParams_eq]
  have hu : getURLMethodsFor recSpec = [recUM] := rfl
  rw [hu, it_singleton]
  refine foldlM_notOk _ recUM ?_ _ _ List.mem_cons_self
  intro b
  unfold respStep
  have hf : findUM [recUM] recUM.url recUM.method = some recUM := rfl
  simp only [hf]
  refine NotOk.bind_right _ (fun st2 => ?_)
  rw [respRest_eq]
  have hr : recUM.op.responses = [recResp] := rfl
  rw [hr, it_singleton]
  refine foldlM_notOk _ recResp ?_ _ _ List.mem_cons_self
  intro b'
  unfold respRestStep
  have hfr : findResp [recResp] recResp.code = some recResp := rfl
  simp only [hfr]
  refine NotOk.bind_right _ (fun st3 => ?_)
  refine NotOk.bind_right _ (fun st4 => ?_)
  refine NotOk.bind_right _ (fun nd => ?_)
  have hs : recResp.schema = some recX := rfl
  simp only [hs]
  refine NotOk.bind_right _ (fun nd' => ?_)
  exact recX_never_returns fl.rev n _ _

end Gs.Diff
