import GsModel.Diff.SelfLemmas
/-
  C12 (totality): on two *valid* documents no helper of the analyser reaches one of its unguarded
  dereferences (`Outcome.panic`), whatever the fuel, the iteration order and the recursion depth.
  Validity is the part of Swagger validity the analyser relies on:
    * every `$ref` met in a schema (at any depth, through properties, items and allOf) names a definition,
    * an array parameter / header / items level has an items level below it.
  `Safe P x`: `x` does not panic and, if it returns, the result satisfies `P` (running out of fuel is the business of
  the termination argument, not of this file).
-/
namespace Gs.Diff
open Gs Gs.Gen Gs.Outcome

def Safe {α} (P : α → Prop) : Outcome α → Prop
  | .ok a => P a
  | .panic _ => False
  | .fuel => True

abbrev NoPanic {α} (x : Outcome α) : Prop := Safe (fun _ => True) x

@[simp] theorem safe_ok {α} (P : α → Prop) (a : α) : Safe P (.ok a) = P a := rfl
@[simp] theorem safe_panic {α} (P : α → Prop) (w : String) : Safe P (.panic w) = False := rfl
@[simp] theorem safe_fuel {α} (P : α → Prop) : Safe P (.fuel : Outcome α) = True := rfl

theorem Safe.bind {α β} {P : α → Prop} {Q : β → Prop} {x : Outcome α} {f : α → Outcome β}
    (hx : Safe P x) (hf : ∀ a, P a → Safe Q (f a)) : Safe Q (x.bind f) := by
  cases x with
  | ok a => exact hf a hx
  | panic w => exact hx
  | fuel => trivial

theorem Safe.mono {α} {P Q : α → Prop} {x : Outcome α} (hx : Safe P x) (h : ∀ a, P a → Q a) : Safe Q x := by
  cases x with
  | ok a => exact h a hx
  | panic w => exact hx
  | fuel => trivial

theorem Safe.noPanic {α} {P : α → Prop} {x : Outcome α} (hx : Safe P x) : NoPanic x := hx.mono (fun _ _ => trivial)

theorem foldlM_safe {α β} (P : β → Prop) (f : β → α → Outcome β) :
    ∀ (l : List α) (b : β), P b → (∀ b a, a ∈ l → P b → Safe P (f b a)) → Safe P (foldlM f b l)
  | [], b, hb, _ => by simpa [foldlM] using hb
  | a :: as, b, hb, hf => by
    simp only [foldlM]
    exact Safe.bind (hf b a List.mem_cons_self hb)
      (fun b' hb' => foldlM_safe P f as b' hb' (fun b a ha hb => hf b a (List.mem_cons_of_mem _ ha) hb))

/-! ### validity -/

/-- an array level has a level below it (a `[]` chain is the nil pointer) -/
def chainOk : List Simple → Bool
  | [] => false
  | s :: rest => if s.type = "array" || primitiveTypeString s.type s.format = "array" then chainOk rest else true

def Schema.children (s : Schema) : List Schema := s.props.map (·.2) ++ s.itemOne.toList ++ s.allOf

def refOk (defs : Defs) (s : Schema) : Bool := s.ref = "" || (lookup defs s.ref).isSome

/-- every `$ref` down to depth `n` resolves -/
def schemaOk (defs : Defs) : Nat → Schema → Bool
  | 0, _ => true
  | n+1, s => refOk defs s && s.children.all (schemaOk defs n)

def ValidS (defs : Defs) (s : Schema) : Prop := ∀ n, schemaOk defs n s = true
def ValidDefs (defs : Defs) : Prop := ∀ kv ∈ defs, ValidS defs kv.2

theorem ValidS.ref {d : Defs} {s : Schema} (h : ValidS d s) (hr : s.ref ≠ "") : ∃ t, lookup d s.ref = some t := by
  have := h 1
  simp only [schemaOk, refOk, Bool.and_eq_true, Bool.or_eq_true, decide_eq_true_eq] at this
  rcases this.1 with e | e
  · exact absurd e hr
  · exact Option.isSome_iff_exists.mp e

theorem ValidS.child {d : Defs} {s c : Schema} (h : ValidS d s) (hc : c ∈ s.children) : ValidS d c := by
  intro n
  have := h (n+1)
  simp only [schemaOk, Bool.and_eq_true, List.all_eq_true] at this
  exact this.2 c hc

theorem ValidDefs.lookup {d : Defs} (h : ValidDefs d) {k : String} {t : Schema} (hl : Gs.lookup d k = some t) : ValidS d t :=
  h (k, t) (lookup_mem d k t hl)

theorem ValidS.item {d : Defs} {s i : Schema} (h : ValidS d s) (hi : s.itemOne = some i) : ValidS d i :=
  h.child (by simp [Schema.children, hi])

theorem ValidS.prop {d : Defs} {s : Schema} {kv : String × Schema} (h : ValidS d s) (hi : kv ∈ s.props) : ValidS d kv.2 :=
  h.child (by simp only [Schema.children, List.mem_append, List.mem_map]; exact Or.inl (Or.inl ⟨kv, hi, rfl⟩))

theorem ValidS.allOf {d : Defs} {s a : Schema} (h : ValidS d s) (hi : a ∈ s.allOf) : ValidS d a :=
  h.child (by simp only [Schema.children, List.mem_append]; exact Or.inr hi)

/-! ### type-name helpers -/

theorem typeOfSimple_safe : ∀ (c : List Simple), chainOk c = true → NoPanic (typeOfSimple c)
  | [], h => by simp [chainOk] at h
  | s :: rest, h => by
    unfold typeOfSimple
    simp only
    split
    · rename_i e
      have : chainOk rest = true := by simpa [chainOk, e] using h
      exact Safe.bind (typeOfSimple_safe rest this) (fun _ _ => by simp)
    · simp

theorem typeOfProps_safe : ∀ (n : Nat) (s : Schema), NoPanic (typeOfProps n s)
  | 0, _ => by simp [typeOfProps]
  | n+1, s => by
    unfold typeOfProps
    split
    · simp
    · split
      · simp
      · simp only
        split
        · split
          · simp
          · split
            · simp
            · exact Safe.bind (typeOfProps_safe n _) (fun _ _ => by simp)
        · simp

theorem typeOfSchema_safe (n : Nat) (s : Schema) : NoPanic (typeOfSchema n s) := by
  unfold typeOfSchema
  split
  · simp
  · split
    · simp
    · split
      · split
        · simp
        · split
          · simp
          · exact Safe.bind (typeOfProps_safe n _) (fun _ _ => by simp)
      · simp

theorem typeStrOfSchema_safe (n : Nat) (s : Schema) : NoPanic (typeStrOfSchema n s) :=
  Safe.bind (typeOfSchema_safe n s) (fun _ _ => by simp)
theorem typeStrOfProps_safe (n : Nat) (s : Schema) : NoPanic (typeStrOfProps n s) :=
  Safe.bind (typeOfProps_safe n s) (fun _ _ => by simp)
theorem typeStrOfSimple_safe (c : List Simple) (h : chainOk c = true) : NoPanic (typeStrOfSimple c) :=
  Safe.bind (typeOfSimple_safe c h) (fun _ _ => by simp)
theorem nodeOfProps_safe (n : Nat) (name : String) (s : Schema) : NoPanic (nodeOfProps n name s) :=
  Safe.bind (typeOfProps_safe n s) (fun _ _ => by simp)
theorem nodeOfSimple_safe (name : String) (c : List Simple) (h : chainOk c = true) : NoPanic (nodeOfSimple name c) :=
  Safe.bind (typeOfSimple_safe c h) (fun _ _ => by simp)

theorem checkRefChangeProps_safe (n : Nat) (t1 t2 : Schema) : NoPanic (checkRefChangeProps n t1 t2) := by
  unfold checkRefChangeProps
  split
  · split
    · exact Safe.bind (typeStrOfProps_safe n t1) (fun _ _ => Safe.bind (typeStrOfProps_safe n t2) (fun _ _ => by simp))
    · simp
  · split
    · exact Safe.bind (typeStrOfProps_safe n t1) (fun _ _ => Safe.bind (typeStrOfProps_safe n t2) (fun _ _ => by simp))
    · simp

theorem checkRefChangeSchema_safe (n : Nat) (t1 t2 : Schema) : NoPanic (checkRefChangeSchema n t1 t2) := by
  unfold checkRefChangeSchema
  split
  · split
    · exact Safe.bind (typeStrOfSchema_safe n t1) (fun _ _ => Safe.bind (typeStrOfSchema_safe n t2) (fun _ _ => by simp))
    · simp
  · split
    · exact Safe.bind (typeStrOfSchema_safe n t1) (fun _ _ => Safe.bind (typeStrOfSchema_safe n t2) (fun _ _ => by simp))
    · simp

theorem safe_ite {α} {P : α → Prop} {c : Prop} [Decidable c] {a b : Outcome α}
    (ha : c → Safe P a) (hb : ¬c → Safe P b) : Safe P (if c then a else b) := by
  split
  · exact ha ‹_›
  · exact hb ‹_›

theorem compareProps_safe (n : Nat) (t1 t2 : Schema) : NoPanic (compareProps n t1 t2) := by
  unfold compareProps
  dsimp only
  refine safe_ite (fun _ => ?_) (fun _ => ?_)
  · exact Safe.bind (typeOfProps_safe n t1) (fun _ _ => Safe.bind (typeOfProps_safe n t2) (fun _ _ => by simp))
  refine safe_ite (fun _ => by simp) (fun _ => ?_)
  refine Safe.bind (checkRefChangeProps_safe n t1 t2) (fun rd _ => ?_)
  refine safe_ite (fun _ => by simp) (fun _ => ?_)
  refine safe_ite (fun _ => by simp) (fun _ => ?_)
  refine safe_ite (fun _ => by simp) (fun _ => by simp)

theorem ifaceNe_safe (a b : Option JVal) : NoPanic (ifaceNe a b) := by
  unfold ifaceNe
  cases a <;> cases b <;> simp

theorem chainOk_tail {s : Simple} {r : List Simple} (h : chainOk (s :: r) = true) (ha : s.type = "array") : chainOk r = true := by
  simpa [chainOk, ha] using h

theorem compareSimpleSchema_safe (loc : Loc) :
    ∀ (c1 c2 : List Simple) (st : St), chainOk c1 = true → chainOk c2 = true → NoPanic (compareSimpleSchema loc c1 c2 st)
  | [], _, _, h, _ => by simp [chainOk] at h
  | _ :: _, [], _, _, h => by simp [chainOk] at h
  | s1 :: r1, s2 :: r2, st, h1, h2 => by
    unfold compareSimpleSchema
    have ts : ∀ (c : Code) (st : St), NoPanic
        ((typeStrOfSimple (s1 :: r1)).bind fun f => (typeStrOfSimple (s2 :: r2)).bind fun t =>
          Outcome.ok (st.addDiffs loc [{ change := c, fromT := f, toT := t }])) := by
      intro c st
      exact Safe.bind (typeStrOfSimple_safe _ h1) (fun _ _ => Safe.bind (typeStrOfSimple_safe _ h2) (fun _ _ => by simp))
    simp only
    refine Safe.bind (P := fun _ => True) ?_ (fun st _ => ?_)
    · split
      · exact ts _ _
      · split
        · exact ts _ _
        · simp
    refine Safe.bind (P := fun _ => True) ?_ (fun st _ => ?_)
    · split
      · exact ts _ _
      · simp
    refine Safe.bind (ifaceNe_safe _ _) (fun ne _ => ?_)
    refine Safe.bind (P := fun _ => True) ?_ (fun st _ => ?_)
    · split
      · exact ts _ _
      · simp
    refine Safe.bind (ifaceNe_safe _ _) (fun ne _ => ?_)
    refine Safe.bind (P := fun _ => True) ?_ (fun st _ => ?_)
    · split
      · exact ts _ _
      · simp
    split
    · rename_i e
      simp only [Bool.and_eq_true, decide_eq_true_eq] at e
      exact compareSimpleSchema_safe loc r1 r2 st (chainOk_tail h1 e.1) (chainOk_tail h2 e.2)
    · simp

/-! ### schemas -/

theorem upsert_all {α} (Q : α → Prop) : ∀ (m : List (String × α)) k v, (∀ kv ∈ m, Q kv.2) → Q v →
    ∀ kv ∈ upsert m k v, Q kv.2
  | [], k, v, _, hv, kv, h => by
    simp only [upsert, List.mem_singleton] at h
    rw [h]; exact hv
  | (k', v') :: tl, k, v, hm, hv, kv, h => by
    simp only [upsert] at h
    split at h
    · rcases List.mem_cons.mp h with h | h
      · rw [h]; exact hv
      · exact hm kv (List.mem_cons_of_mem _ h)
    · rcases List.mem_cons.mp h with h | h
      · rw [h]; exact hm (k', v') List.mem_cons_self
      · exact upsert_all Q tl k v (fun kv hkv => hm kv (List.mem_cons_of_mem _ hkv)) hv kv h

theorem foldl_upsert_all {α β} (Q : α → Prop) (g : β → String × α) :
    ∀ (l : List β) (m : List (String × α)), (∀ kv ∈ m, Q kv.2) → (∀ x ∈ l, Q (g x).2) →
      ∀ kv ∈ l.foldl (fun acc x => upsert acc (g x).1 (g x).2) m, Q kv.2
  | [], _, hm, _ => hm
  | x :: xs, m, hm, hl => by
    simp only [List.foldl]
    exact foldl_upsert_all Q g xs _ (upsert_all Q m _ _ hm (hl x List.mem_cons_self))
      (fun y hy => hl y (List.mem_cons_of_mem _ hy))

/-- propertiesFor never meets an unresolved `$ref`, and every property schema it returns is valid. -/
theorem propertiesFor_safe (d : Defs) (hd : ValidDefs d) :
    ∀ n s, ValidS d s → Safe (fun r => ∀ kv ∈ r.1, ValidS d kv.2.schema) (propertiesFor d n s)
  | 0, _, _ => by simp [propertiesFor]
  | n+1, s, hs => by
    unfold propertiesFor
    simp only
    refine Safe.bind (P := fun (r : Schema × List String) => ValidS d r.1) ?_ ?_
    · split
      · rename_i hr
        obtain ⟨t, ht⟩ := hs.ref hr
        rw [ht]
        exact hd.lookup ht
      · exact hs
    · intro r hr
      refine foldlM_safe (fun (acc : List (String × PropDefn) × List String) => ∀ kv ∈ acc.1, ValidS d kv.2.schema) _ _ _ ?_ ?_
      · simp only
        split
        · exact foldl_upsert_all (fun (p : PropDefn) => ValidS d p.schema)
            (fun (kv : String × Schema) => (kv.1, ({ schema := kv.2, required := r.1.required.contains kv.1 } : PropDefn)))
            _ [] (fun _ h => by cases h) (fun kv hkv => hr.prop hkv)
        · intro _ h; cases h
      · intro acc a ha hacc
        refine Safe.bind (propertiesFor_safe d hd n a (hr.allOf ha)) ?_
        intro m hm
        simp only [safe_ok]
        exact foldl_upsert_all (fun (p : PropDefn) => ValidS d p.schema) (fun (kv : String × PropDefn) => (kv.1, kv.2))
          _ _ hacc (fun kv hkv => hm kv hkv)

theorem addNode_ne_nil (l : Loc) (n : NodeSeg) : (l.addNode n).node ≠ [] := by
  simp [Loc.addNode]

theorem schemaLocationKey_safe (l : Loc) (h : l.node ≠ []) : NoPanic (schemaLocationKey l) := by
  unfold schemaLocationKey
  split
  · contradiction
  · split <;> simp

theorem addChildDiffNode_safe (n : Nat) (l : Loc) (name : String) (s : Schema) :
    Safe (fun l' => l'.node ≠ []) (addChildDiffNode n l name s) :=
  Safe.bind (nodeOfProps_safe n name s) (fun nd _ => by simp [addNode_ne_nil])

/-- what `resolveBoth` returns on valid arguments: both sides resolved, to valid schemas -/
def GoodRes (cx : Ctx) : Option (Option Schema × Option Schema × St) → Prop
  | none => True
  | some (o1, o2, _) => (∃ t1, o1 = some t1 ∧ ValidS cx.defs1 t1) ∧ (∃ t2, o2 = some t2 ∧ ValidS cx.defs2 t2)

theorem schemaFromRef_valid (st : St) (d : Defs) (hd : ValidDefs d) (s : Schema) (hs : ValidS d s) (hr : s.ref ≠ "") :
    ∃ t, (schemaFromRef st d s.ref).1 = some t ∧ ValidS d t := by
  obtain ⟨t, ht⟩ := hs.ref hr
  refine ⟨t, ?_, hd.lookup ht⟩
  simp [schemaFromRef, ht]

theorem resolveBoth_safe (cx : Ctx) (h1 : ValidDefs cx.defs1) (h2 : ValidDefs cx.defs2) (loc : Loc) (hl : loc.node ≠ [])
    (s1 s2 : Schema) (v1 : ValidS cx.defs1 s1) (v2 : ValidS cx.defs2 s2) (st : St) :
    Safe (GoodRes cx) (resolveBoth cx loc s1 s2 st) := by
  unfold resolveBoth
  dsimp only
  refine Safe.bind (P := fun r => match r with
      | none => True
      | some (o1, _) => ∃ t1, o1 = some t1 ∧ ValidS cx.defs1 t1) ?_ ?_
  · refine safe_ite (fun hr => ?_) (fun _ => ?_)
    · refine Safe.bind (schemaLocationKey_safe loc hl) (fun key _ => ?_)
      refine safe_ite (fun _ => by simp) (fun _ => ?_)
      simp only [safe_ok]
      exact schemaFromRef_valid _ _ h1 s1 v1 hr
    · simp only [safe_ok]
      exact ⟨s1, rfl, v1⟩
  · intro r hr
    cases r with
    | none => simp [GoodRes]
    | some p =>
      obtain ⟨o1, st'⟩ := p
      simp only [safe_ok, GoodRes]
      refine ⟨hr, ?_⟩
      split
      · rename_i hr2
        exact schemaFromRef_valid _ _ h2 s2 v2 hr2
      · exact ⟨s2, rfl, v2⟩

/-- a comparator that is safe on valid schemas at a real location -/
abbrev CmpSafe (cx : Ctx) (cmp : Cmp) : Prop :=
  ∀ loc s1 s2 st, loc.node ≠ [] → ValidS cx.defs1 s1 → ValidS cx.defs2 s2 → NoPanic (cmp loc (some s1) (some s2) st)

theorem compareItems_safe (cx : Ctx) (cmp : Cmp) (hc : CmpSafe cx cmp) (n : Nat) (loc : Loc) (hl : loc.node ≠ [])
    (t1 t2 : Schema) (v1 : ValidS cx.defs1 t1) (v2 : ValidS cx.defs2 t2) (st : St) :
    NoPanic (compareItems cmp n loc t1 t2 st) := by
  unfold compareItems
  refine safe_ite (fun _ => ?_) (fun _ => by simp)
  refine safe_ite (fun _ => ?_) (fun _ => ?_)
  · refine safe_ite (fun h => ?_) (fun _ => by simp)
    simp only [Bool.and_eq_true] at h
    obtain ⟨i1, e1⟩ := Option.isSome_iff_exists.mp h.1.1.2
    obtain ⟨i2, e2⟩ := Option.isSome_iff_exists.mp h.2
    rw [e1, e2]
    exact hc loc i1 i2 st hl (v1.item e1) (v2.item e2)
  · exact Safe.bind (typeStrOfSchema_safe n t1) (fun _ _ => Safe.bind (typeStrOfSchema_safe n t2) (fun _ _ => by simp))

theorem propStep_safe (cx : Ctx) (cmp : Cmp) (hc : CmpSafe cx cmp) (n : Nat) (loc : Loc)
    (props2 : List (String × PropDefn)) (hp2 : ∀ kv ∈ props2, ValidS cx.defs2 kv.2.schema)
    (acc : St × List (Loc × Code)) (kv : String × PropDefn) (hkv : ValidS cx.defs1 kv.2.schema) :
    NoPanic (propStep cmp n loc props2 acc kv) := by
  unfold propStep
  refine Safe.bind (addChildDiffNode_safe n loc kv.1 kv.2.schema) (fun childLoc hcl => ?_)
  split
  · rename_i p2 hl2
    dsimp only
    exact Safe.bind (hc childLoc _ _ acc.1 hcl hkv (hp2 (kv.1, p2) (lookup_mem _ _ _ hl2))) (fun _ _ => by simp)
  · simp

theorem addedStep_safe (n : Nat) (loc : Loc) (t1 : Schema) (props2 : List (String × PropDefn))
    (acc : List (Loc × Code)) (kv : String × Schema) : NoPanic (addedStep n loc t1 props2 acc kv) := by
  unfold addedStep
  refine safe_ite (fun _ => by simp) (fun _ => ?_)
  exact Safe.bind (addChildDiffNode_safe n loc kv.1 kv.2) (fun _ _ => by simp)

theorem compareProperties_safe (cx : Ctx) (h1 : ValidDefs cx.defs1) (h2 : ValidDefs cx.defs2) (cmp : Cmp) (hc : CmpSafe cx cmp)
    (n : Nat) (loc : Loc) (t1 t2 : Schema) (v1 : ValidS cx.defs1 t1) (v2 : ValidS cx.defs2 t2) (st : St) :
    NoPanic (compareProperties cx cmp n loc t1 t2 st) := by
  unfold compareProperties
  refine safe_ite (fun _ => by simp) (fun _ => ?_)
  refine Safe.bind (propertiesFor_safe cx.defs1 h1 n t1 v1) (fun pr1 hpr1 => ?_)
  refine Safe.bind (propertiesFor_safe cx.defs2 h2 n t2 v2) (fun pr2 hpr2 => ?_)
  dsimp only
  refine Safe.bind (P := fun _ => True) ?_ (fun r _ => ?_)
  · refine foldlM_safe (fun _ => True) _ _ _ trivial ?_
    intro acc kv hkv _
    exact propStep_safe cx cmp hc n loc pr2.1 hpr2 acc kv (hpr1 kv ((it_mem _ _ _).mp hkv))
  · refine Safe.bind (P := fun _ => True) ?_ (fun _ _ => by simp)
    refine foldlM_safe (fun _ => True) _ _ _ trivial ?_
    intro acc kv _ _
    exact addedStep_safe n loc t1 pr2.1 acc kv

/-- compareSchema never dereferences nil on valid schemas: by induction on the fuel, i.e. at every depth,
    through `$ref` cycles, allOf, items and properties. -/
theorem compareSchema_safe (cx : Ctx) (h1 : ValidDefs cx.defs1) (h2 : ValidDefs cx.defs2) :
    ∀ n, CmpSafe cx (compareSchema cx n)
  | 0 => by intro loc s1 s2 st _ _ _; simp [compareSchema]
  | n+1 => by
    intro loc s1 s2 st hl v1 v2
    unfold compareSchema
    dsimp only
    refine Safe.bind (checkRefChangeSchema_safe n s1 s2) (fun refDiffs _ => ?_)
    refine safe_ite (fun _ => by simp) (fun _ => ?_)
    refine Safe.bind (resolveBoth_safe cx h1 h2 loc hl s1 s2 v1 v2 st) ?_
    intro r hr
    cases r with
    | none => simp
    | some p =>
      obtain ⟨o1, o2, st'⟩ := p
      obtain ⟨⟨t1, e1, w1⟩, ⟨t2, e2, w2⟩⟩ := hr
      subst e1 e2
      dsimp only
      refine Safe.bind (compareProps_safe n t1 t2) (fun typeDiffs _ => ?_)
      refine safe_ite (fun _ => by simp) (fun _ => ?_)
      refine Safe.bind (compareItems_safe cx _ (compareSchema_safe cx h1 h2 n) n loc hl t1 t2 w1 w2 _) (fun st'' _ => ?_)
      exact compareProperties_safe cx h1 h2 _ (compareSchema_safe cx h1 h2 n) n loc t1 t2 w1 w2 st''

/-! ### parameters, responses, definitions, Analyse -/

def ParamOk (d : Defs) (p : Param) : Prop := chainOk p.chain = true ∧ ∀ sc, p.schema = some sc → ValidS d sc
def RespOk (d : Defs) (r : Response) : Prop := (∀ h ∈ r.headers, chainOk h.chain = true) ∧ ∀ sc, r.schema = some sc → ValidS d sc
def UMOk (d : Defs) (u : UM) : Prop :=
  (∀ p ∈ u.item.params, ParamOk d p) ∧ (∀ p ∈ u.op.params, ParamOk d p) ∧ ∀ r ∈ u.op.responses, RespOk d r

/-- the part of Swagger validity the analyser relies on -/
def Spec.Valid (s : Spec) : Prop := ValidDefs s.defs ∧ ∀ u ∈ getURLMethodsFor s, UMOk s.defs u

theorem getParams_all (Q : Param → Prop) (pp op : List Param) (loc : String) (hp : ∀ p ∈ pp, Q p) (ho : ∀ p ∈ op, Q p) :
    ∀ kv ∈ getParams pp op loc, Q kv.2 := by
  unfold getParams
  have step : ∀ (l : List Param) (m : List (String × Param)), (∀ p ∈ l, Q p) → (∀ kv ∈ m, Q kv.2) →
      ∀ kv ∈ l.foldl (fun m p => if p.loc = loc then upsert m p.name p else m) m, Q kv.2 := by
    intro l
    induction l with
    | nil => intro m _ h; exact h
    | cons p ps ih =>
      intro m hl h
      simp only [List.foldl]
      apply ih _ (fun q hq => hl q (List.mem_cons_of_mem _ hq))
      split
      · exact upsert_all Q _ _ _ h (hl p List.mem_cons_self)
      · exact h
  exact step _ _ ho (step _ _ hp (fun _ h => by cases h))

theorem findBy_mem {α β} [DecidableEq β] (key : α → β) (k : β) (l : List α) (x : α) (h : findBy key k l = some x) : x ∈ l :=
  List.mem_of_find?_eq_some h

theorem compareParams_safe (cx : Ctx) (h1 : ValidDefs cx.defs1) (h2 : ValidDefs cx.defs2) (n : Nat)
    (url method location name : String) (p1 p2 : Param) (k1 : ParamOk cx.defs1 p1) (k2 : ParamOk cx.defs2 p2) (st : St) :
    NoPanic (compareParams cx n url method location name p1 p2 st) := by
  unfold compareParams
  dsimp only
  refine Safe.bind (P := fun _ => True) ?_ (fun r _ => ?_)
  · split
    · rename_i sc1 sc2 e1 e2
      refine Safe.bind (P := fun (cl : Loc) => cl.node ≠ []) ?_ (fun cl hcl => ?_)
      · refine safe_ite (fun _ => ?_) (fun _ => ?_)
        · exact Safe.bind (nodeOfProps_safe n name sc2) (fun _ _ => by simp [addNode_ne_nil])
        · simp [addNode_ne_nil]
      · exact Safe.bind (compareSchema_safe cx h1 h2 n cl sc1 sc2 _ hcl (k1.2 sc1 e1) (k2.2 sc2 e2)) (fun _ _ => by simp)
    · simp
  · refine Safe.bind (compareProps_safe n _ _) (fun diffs _ => ?_)
    refine Safe.bind (nodeOfSimple_safe name p2.chain k2.1) (fun nd _ => ?_)
    exact compareSimpleSchema_safe _ p1.chain p2.chain _ k1.1 k2.1

theorem analyseRequestParams_safe (cx : Ctx) (h1 : ValidDefs cx.defs1) (h2 : ValidDefs cx.defs2) (n : Nat)
    (u1 u2 : List UM) (k1 : ∀ u ∈ u1, UMOk cx.defs1 u) (k2 : ∀ u ∈ u2, UMOk cx.defs2 u) (st : St) :
    NoPanic (analyseRequestParams cx n u1 u2 st) := by
  unfold analyseRequestParams
  refine foldlM_safe (fun _ => True) _ _ _ trivial ?_
  intro st paramLocation _ _
  dsimp only
  refine foldlM_safe (fun _ => True) _ _ _ trivial ?_
  intro st um2 hum2 _
  have o2 := k2 um2 ((it_mem _ _ _).mp hum2)
  split
  · simp
  · rename_i um1 hf
    have o1 := k1 um1 (findBy_mem _ _ _ _ hf)
    skip
    have a1 := getParams_all (ParamOk cx.defs1) um1.item.params um1.op.params paramLocation o1.1 o1.2.1
    have a2 := getParams_all (ParamOk cx.defs2) um2.item.params um2.op.params paramLocation o2.1 o2.2.1
    refine Safe.bind (P := fun _ => True) ?_ (fun st _ => ?_)
    · refine foldlM_safe (fun _ => True) _ _ _ trivial ?_
      intro st kv hkv _
      refine safe_ite (fun _ => by simp) (fun _ => ?_)
      exact Safe.bind (nodeOfSimple_safe _ _ (a1 kv ((it_mem _ _ _).mp hkv)).1) (fun _ _ => by simp)
    · refine foldlM_safe (fun _ => True) _ _ _ trivial ?_
      intro st kv hkv _
      have b2 := a2 kv ((it_mem _ _ _).mp hkv)
      split
      · rename_i p1 hl1
        exact compareParams_safe cx h1 h2 n _ _ _ _ p1 kv.2 (a1 (kv.1, p1) (lookup_mem _ _ _ hl1)) b2 st
      · exact Safe.bind (nodeOfSimple_safe _ _ b2.1) (fun _ _ => by simp)

theorem bodyNode_safe (n : Nat) (os : Option Schema) : NoPanic (bodyNode n os) := by
  unfold bodyNode
  split
  · simp
  · exact nodeOfProps_safe n _ _

theorem bodyNode'_safe (n : Nat) (os : Option Schema) :
    NoPanic (match os with
      | none => Outcome.ok (nameNode "NoContent")
      | some s => nodeOfProps n "Body" s) := by
  split
  · simp
  · exact nodeOfProps_safe n _ _

theorem analyseResponseParams_safe (cx : Ctx) (h1 : ValidDefs cx.defs1) (h2 : ValidDefs cx.defs2) (n : Nat)
    (u1 u2 : List UM) (k1 : ∀ u ∈ u1, UMOk cx.defs1 u) (k2 : ∀ u ∈ u2, UMOk cx.defs2 u) (st : St) :
    NoPanic (analyseResponseParams cx n u1 u2 st) := by
  unfold analyseResponseParams
  refine foldlM_safe (fun _ => True) _ _ _ trivial ?_
  intro st um2 hum2 _
  have o2 := k2 um2 ((it_mem _ _ _).mp hum2)
  split
  · simp
  · rename_i um1 hf
    have o1 := k1 um1 (findBy_mem _ _ _ _ hf)
    dsimp only
    refine Safe.bind (P := fun _ => True) ?_ (fun st _ => ?_)
    · refine foldlM_safe (fun _ => True) _ _ _ trivial ?_
      intro st resp1 _ _
      refine safe_ite (fun _ => by simp) (fun _ => ?_)
      exact Safe.bind (bodyNode'_safe n resp1.schema) (fun _ _ => by simp)
    · refine foldlM_safe (fun _ => True) _ _ _ trivial ?_
      intro st resp2 hr2 _
      have q2 := o2.2.2 resp2 ((it_mem _ _ _).mp hr2)
      split
      · exact Safe.bind (bodyNode_safe n resp2.schema) (fun _ _ => by simp)
      · rename_i resp1 hf1
        have q1 := o1.2.2 resp1 (findBy_mem _ _ _ _ hf1)
        skip
        refine Safe.bind (P := fun _ => True) ?_ (fun st _ => ?_)
        · refine foldlM_safe (fun _ => True) _ _ _ trivial ?_
          intro st hdr2 hh2 _
          split
          · exact Safe.bind (compareProps_safe n _ _) (fun _ _ => by simp)
          · exact Safe.bind (nodeOfSimple_safe _ _ (q2.1 hdr2 ((it_mem _ _ _).mp hh2))) (fun _ _ => by simp)
        refine Safe.bind (P := fun _ => True) ?_ (fun st _ => ?_)
        · refine foldlM_safe (fun _ => True) _ _ _ trivial ?_
          intro st hdr1 hh1 _
          refine safe_ite (fun _ => by simp) (fun _ => ?_)
          exact Safe.bind (nodeOfSimple_safe _ _ (q1.1 hdr1 ((it_mem _ _ _).mp hh1))) (fun _ _ => by simp)
        refine Safe.bind (bodyNode'_safe n resp1.schema) (fun nd _ => ?_)
        skip
        split
        · exact Safe.bind (nodeOfProps_safe n _ _) (fun _ _ => by simp)
        · rename_i s1 s2 e1 e2
          refine Safe.bind (nodeOfProps_safe n _ _) (fun nd' _ => ?_)
          exact compareSchema_safe cx h1 h2 n _ s1 s2 _ (by simp) (q1.2 s1 e1) (q2.2 s2 e2)
        · exact Safe.bind (nodeOfProps_safe n _ _) (fun _ _ => by simp)
        · simp

theorem analyseDefinitions_safe (cx : Ctx) (h1 : ValidDefs cx.defs1) (h2 : ValidDefs cx.defs2) (n : Nat) (st : St) :
    NoPanic (analyseDefinitions cx n st) := by
  unfold analyseDefinitions
  dsimp only
  refine Safe.bind (P := fun _ => True) ?_ (fun _ _ => by simp)
  refine foldlM_safe (fun _ => True) _ _ _ trivial ?_
  intro st kv hkv _
  refine safe_ite (fun _ => by simp) (fun _ => ?_)
  skip
  split
  · rename_i s2 hl2
    exact compareSchema_safe cx h1 h2 n _ kv.2 s2 st (addNode_ne_nil _ _) (h1 kv ((it_mem _ _ _).mp hkv)) (h2.lookup hl2)
  · simp

/-- **Totality (no panic).** On two valid documents the analyser returns a report or runs out of the fuel it was
    given; it never reaches an unguarded dereference — for every fuel and every iteration order. -/
theorem analyse_safe (fl : Flags) (n : Nat) (a b : Spec) (ha : a.Valid) (hb : b.Valid) : NoPanic (analyse fl n a b) := by
  unfold analyse
  dsimp only
  refine Safe.bind (analyseRequestParams_safe _ ha.1 hb.1 n _ _ ha.2 hb.2 _) (fun st _ => ?_)
  refine Safe.bind (analyseResponseParams_safe _ ha.1 hb.1 n _ _ ha.2 hb.2 _) (fun st _ => ?_)
  exact Safe.bind (analyseDefinitions_safe _ ha.1 hb.1 n _) (fun _ _ => by simp)

/-! ### the same validity as a computable check (what the driver evaluates on every document) -/

def Param.okB (d : Defs) (k : Nat) (p : Param) : Bool :=
  chainOk p.chain && (match p.schema with | none => true | some sc => schemaOk d k sc)
def Response.okB (d : Defs) (k : Nat) (r : Response) : Bool :=
  r.headers.all (fun h => chainOk h.chain) && (match r.schema with | none => true | some sc => schemaOk d k sc)

/-- validity down to depth `k` -/
def Spec.validB (k : Nat) (s : Spec) : Bool :=
  s.defs.all (fun kv => schemaOk s.defs k kv.2) &&
  (getURLMethodsFor s).all (fun u =>
    u.item.params.all (Param.okB s.defs k) && u.op.params.all (Param.okB s.defs k) && u.op.responses.all (Response.okB s.defs k))

theorem Spec.valid_of_validB (s : Spec) (h : ∀ k, s.validB k = true) : s.Valid := by
  have h' := fun k => by
    have := h k
    simp only [Spec.validB, Bool.and_eq_true, List.all_eq_true] at this
    exact this
  refine ⟨fun kv hkv k => (h' k).1 kv hkv, fun u hu => ⟨?_, ?_, ?_⟩⟩
  · intro p hp
    refine ⟨?_, fun sc hsc k => ?_⟩
    · have := ((h' 0).2 u hu).1.1 p hp
      simp only [Param.okB, Bool.and_eq_true] at this
      exact this.1
    · have := ((h' k).2 u hu).1.1 p hp
      simp only [Param.okB, hsc, Bool.and_eq_true] at this
      exact this.2
  · intro p hp
    refine ⟨?_, fun sc hsc k => ?_⟩
    · have := ((h' 0).2 u hu).1.2 p hp
      simp only [Param.okB, Bool.and_eq_true] at this
      exact this.1
    · have := ((h' k).2 u hu).1.2 p hp
      simp only [Param.okB, hsc, Bool.and_eq_true] at this
      exact this.2
  · intro r hr
    refine ⟨fun hd hhd => ?_, fun sc hsc k => ?_⟩
    · have := ((h' 0).2 u hu).2 r hr
      simp only [Response.okB, Bool.and_eq_true, List.all_eq_true] at this
      exact this.1 hd hhd
    · have := ((h' k).2 u hu).2 r hr
      simp only [Response.okB, hsc, Bool.and_eq_true] at this
      exact this.2

/-- deeper checks imply shallower ones (so that one evaluation at a depth beyond the document's nesting decides all) -/
theorem schemaOk_mono (d : Defs) : ∀ k s, schemaOk d (k+1) s = true → schemaOk d k s = true
  | 0, _, _ => rfl
  | k+1, s, h => by
    simp only [schemaOk, Bool.and_eq_true, List.all_eq_true] at h ⊢
    exact ⟨h.1, fun c hc => schemaOk_mono d k c (by simpa [schemaOk] using h.2 c hc)⟩

end Gs.Diff
