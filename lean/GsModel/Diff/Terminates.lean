import GsModel.Diff.Total
/-
  C12 (termination, acyclic case): on documents whose schemas — following `$ref`s — are finitely deep (no recursive
  definitions), the analyser never runs out of fuel once the fuel exceeds that depth: the recursion of the real code is
  bounded by the nesting depth of the documents, with no help from the visited-key guard.  (For recursive definitions the
  guard is what ends the recursion: `guard_returns`, `guard_marks`, `key_ignores_depth` in Diff/Guard.lean; that case is
  not closed by a theorem.)
  `Term P x`: `x` does not run out of fuel and, if it returns, the result satisfies `P` (panics are the business of
  Diff/Total.lean).
-/
namespace Gs.Diff
open Gs Gs.Gen Gs.Outcome

def Term {α} (P : α → Prop) : Outcome α → Prop
  | .ok a => P a
  | .panic _ => True
  | .fuel => False

abbrev NoFuel {α} (x : Outcome α) : Prop := Term (fun _ => True) x

@[simp] theorem term_ok {α} (P : α → Prop) (a : α) : Term P (.ok a) = P a := rfl
@[simp] theorem term_panic {α} (P : α → Prop) (w : String) : Term P (.panic w) = True := rfl
@[simp] theorem term_fuel {α} (P : α → Prop) : Term P (.fuel : Outcome α) = False := rfl

theorem Term.bind {α β} {P : α → Prop} {Q : β → Prop} {x : Outcome α} {f : α → Outcome β}
    (hx : Term P x) (hf : ∀ a, P a → Term Q (f a)) : Term Q (x.bind f) := by
  cases x with
  | ok a => exact hf a hx
  | panic w => trivial
  | fuel => exact hx

theorem Term.mono {α} {P Q : α → Prop} {x : Outcome α} (hx : Term P x) (h : ∀ a, P a → Q a) : Term Q x := by
  cases x with
  | ok a => exact h a hx
  | panic w => trivial
  | fuel => exact hx

theorem term_ite {α} {P : α → Prop} {c : Prop} [Decidable c] {a b : Outcome α}
    (ha : c → Term P a) (hb : ¬c → Term P b) : Term P (if c then a else b) := by
  split
  · exact ha ‹_›
  · exact hb ‹_›

theorem foldlM_term {α β} (P : β → Prop) (f : β → α → Outcome β) :
    ∀ (l : List α) (b : β), P b → (∀ b a, a ∈ l → P b → Term P (f b a)) → Term P (foldlM f b l)
  | [], b, hb, _ => by simpa [foldlM] using hb
  | a :: as, b, hb, hf => by
    simp only [foldlM]
    exact Term.bind (hf b a List.mem_cons_self hb)
      (fun b' hb' => foldlM_term P f as b' hb' (fun b a ha hb => hf b a (List.mem_cons_of_mem _ ha) hb))

/-! ### depth, following `$ref`s -/

/-- the schema, with every `$ref` followed, is at most `n` levels deep (false for recursive definitions at every `n`) -/
def fitsD (d : Defs) : Nat → Schema → Bool
  | 0, _ => false
  | n+1, s =>
    (if s.ref = "" then true else match lookup d s.ref with | some t => fitsD d n t | none => true) &&
    s.children.all (fitsD d n)

theorem fitsD_mono (d : Defs) : ∀ n s, fitsD d n s = true → fitsD d (n+1) s = true
  | 0, _, h => by simp [fitsD] at h
  | n+1, s, h => by
    rw [fitsD] at h ⊢
    simp only [Bool.and_eq_true, List.all_eq_true] at h ⊢
    refine ⟨?_, fun c hc => fitsD_mono d n c (h.2 c hc)⟩
    split
    · rfl
    · split
      · rename_i t ht
        have h1 := h.1
        simp only [‹¬ s.ref = ""›, if_false, ht] at h1
        exact fitsD_mono d n t h1
      · rfl

theorem fitsD_child {d : Defs} {n : Nat} {s c : Schema} (h : fitsD d (n+1) s = true) (hc : c ∈ s.children) : fitsD d n c = true := by
  rw [fitsD] at h
  simp only [Bool.and_eq_true, List.all_eq_true] at h
  exact h.2 c hc

theorem fitsD_item {d : Defs} {n : Nat} {s i : Schema} (h : fitsD d (n+1) s = true) (hi : s.itemOne = some i) : fitsD d n i = true :=
  fitsD_child h (by simp [Schema.children, hi])

theorem fitsD_prop {d : Defs} {n : Nat} {s : Schema} {kv : String × Schema} (h : fitsD d (n+1) s = true) (hi : kv ∈ s.props) :
    fitsD d n kv.2 = true :=
  fitsD_child h (by simp only [Schema.children, List.mem_append, List.mem_map]; exact Or.inl (Or.inl ⟨kv, hi, rfl⟩))

theorem fitsD_allOf {d : Defs} {n : Nat} {s a : Schema} (h : fitsD d (n+1) s = true) (hi : a ∈ s.allOf) : fitsD d n a = true :=
  fitsD_child h (by simp only [Schema.children, List.mem_append]; exact Or.inr hi)

theorem fitsD_target {d : Defs} {n : Nat} {s t : Schema} (h : fitsD d (n+1) s = true) (hr : s.ref ≠ "") (ht : lookup d s.ref = some t) :
    fitsD d n t = true := by
  rw [fitsD] at h
  simp only [Bool.and_eq_true] at h
  have h1 := h.1
  simpa [hr, ht] using h1

theorem fitsD_pos {d : Defs} {n : Nat} {s : Schema} (h : fitsD d n s = true) : ∃ m, n = m + 1 := by
  cases n with
  | zero => simp [fitsD] at h
  | succ m => exact ⟨m, rfl⟩

/-! ### type-name helpers -/

theorem typeOfProps_term (d : Defs) : ∀ (n : Nat) (s : Schema), fitsD d n s = true → NoFuel (typeOfProps n s)
  | 0, _, h => by simp [fitsD] at h
  | n+1, s, h => by
    unfold typeOfProps
    split
    · simp
    · split
      · simp
      · simp only
        split
        · split
          · simp
          · split
            · simp
            · rename_i i hi
              exact Term.bind (typeOfProps_term d n i (fitsD_item h hi)) (fun _ _ => by simp)
        · simp

theorem typeOfSchema_term (d : Defs) (n : Nat) (s : Schema) (h : fitsD d (n+1) s = true) : NoFuel (typeOfSchema n s) := by
  unfold typeOfSchema
  split
  · simp
  · split
    · simp
    · split
      · split
        · simp
        · split
          · simp
          · rename_i i hi
            exact Term.bind (typeOfProps_term d n i (fitsD_item h hi)) (fun _ _ => by simp)
      · simp

theorem typeStrOfSchema_term (d : Defs) (n : Nat) (s : Schema) (h : fitsD d (n+1) s = true) : NoFuel (typeStrOfSchema n s) :=
  Term.bind (typeOfSchema_term d n s h) (fun _ _ => by simp)
theorem typeStrOfProps_term (d : Defs) (n : Nat) (s : Schema) (h : fitsD d n s = true) : NoFuel (typeStrOfProps n s) :=
  Term.bind (typeOfProps_term d n s h) (fun _ _ => by simp)
theorem nodeOfProps_term (d : Defs) (n : Nat) (name : String) (s : Schema) (h : fitsD d n s = true) : NoFuel (nodeOfProps n name s) :=
  Term.bind (typeOfProps_term d n s h) (fun _ _ => by simp)

theorem typeOfSimple_term : ∀ (c : List Simple), NoFuel (typeOfSimple c)
  | [] => by simp [typeOfSimple]
  | s :: rest => by
    unfold typeOfSimple
    simp only
    split
    · exact Term.bind (typeOfSimple_term rest) (fun _ _ => by simp)
    · simp

theorem typeStrOfSimple_term (c : List Simple) : NoFuel (typeStrOfSimple c) :=
  Term.bind (typeOfSimple_term c) (fun _ _ => by simp)
theorem nodeOfSimple_term (name : String) (c : List Simple) : NoFuel (nodeOfSimple name c) :=
  Term.bind (typeOfSimple_term c) (fun _ _ => by simp)

theorem checkRefChangeProps_term (d1 d2 : Defs) (n : Nat) (t1 t2 : Schema) (h1 : fitsD d1 n t1 = true) (h2 : fitsD d2 n t2 = true) :
    NoFuel (checkRefChangeProps n t1 t2) := by
  unfold checkRefChangeProps
  split
  · split
    · exact Term.bind (typeStrOfProps_term d1 n t1 h1) (fun _ _ => Term.bind (typeStrOfProps_term d2 n t2 h2) (fun _ _ => by simp))
    · simp
  · split
    · exact Term.bind (typeStrOfProps_term d1 n t1 h1) (fun _ _ => Term.bind (typeStrOfProps_term d2 n t2 h2) (fun _ _ => by simp))
    · simp

theorem checkRefChangeSchema_term (d1 d2 : Defs) (n : Nat) (t1 t2 : Schema) (h1 : fitsD d1 (n+1) t1 = true) (h2 : fitsD d2 (n+1) t2 = true) :
    NoFuel (checkRefChangeSchema n t1 t2) := by
  unfold checkRefChangeSchema
  split
  · split
    · exact Term.bind (typeStrOfSchema_term d1 n t1 h1) (fun _ _ => Term.bind (typeStrOfSchema_term d2 n t2 h2) (fun _ _ => by simp))
    · simp
  · split
    · exact Term.bind (typeStrOfSchema_term d1 n t1 h1) (fun _ _ => Term.bind (typeStrOfSchema_term d2 n t2 h2) (fun _ _ => by simp))
    · simp

theorem compareProps_term (d1 d2 : Defs) (n : Nat) (t1 t2 : Schema) (h1 : fitsD d1 n t1 = true) (h2 : fitsD d2 n t2 = true) :
    NoFuel (compareProps n t1 t2) := by
  unfold compareProps
  dsimp only
  refine term_ite (fun _ => ?_) (fun _ => ?_)
  · exact Term.bind (typeOfProps_term d1 n t1 h1) (fun _ _ => Term.bind (typeOfProps_term d2 n t2 h2) (fun _ _ => by simp))
  refine term_ite (fun _ => by simp) (fun _ => ?_)
  refine Term.bind (checkRefChangeProps_term d1 d2 n t1 t2 h1 h2) (fun rd _ => ?_)
  refine term_ite (fun _ => by simp) (fun _ => ?_)
  refine term_ite (fun _ => by simp) (fun _ => ?_)
  refine term_ite (fun _ => by simp) (fun _ => by simp)

theorem ifaceNe_term (a b : Option JVal) : NoFuel (ifaceNe a b) := by
  unfold ifaceNe
  cases a <;> cases b <;> simp

theorem compareSimpleSchema_term (loc : Loc) : ∀ (c1 c2 : List Simple) (st : St), NoFuel (compareSimpleSchema loc c1 c2 st)
  | [], _, _ => by simp [compareSimpleSchema]
  | _ :: _, [], _ => by simp [compareSimpleSchema]
  | s1 :: r1, s2 :: r2, st => by
    unfold compareSimpleSchema
    have ts : ∀ (c : Code) (st : St), NoFuel
        ((typeStrOfSimple (s1 :: r1)).bind fun f => (typeStrOfSimple (s2 :: r2)).bind fun t =>
          Outcome.ok (st.addDiffs loc [{ change := c, fromT := f, toT := t }])) := by
      intro c st
      exact Term.bind (typeStrOfSimple_term _) (fun _ _ => Term.bind (typeStrOfSimple_term _) (fun _ _ => by simp))
    simp only
    refine Term.bind (P := fun _ => True) ?_ (fun st _ => ?_)
    · split
      · exact ts _ _
      · split
        · exact ts _ _
        · simp
    refine Term.bind (P := fun _ => True) ?_ (fun st _ => ?_)
    · split
      · exact ts _ _
      · simp
    refine Term.bind (ifaceNe_term _ _) (fun ne _ => ?_)
    refine Term.bind (P := fun _ => True) ?_ (fun st _ => ?_)
    · split
      · exact ts _ _
      · simp
    refine Term.bind (ifaceNe_term _ _) (fun ne _ => ?_)
    refine Term.bind (P := fun _ => True) ?_ (fun st _ => ?_)
    · split
      · exact ts _ _
      · simp
    split
    · exact compareSimpleSchema_term loc r1 r2 st
    · simp

/-! ### schemas -/

/-- propertiesFor has enough fuel when the schema fits, and every property schema it returns fits one level less -/
theorem propertiesFor_term (d : Defs) :
    ∀ n s, fitsD d (n+1) s = true → Term (fun r => ∀ kv ∈ r.1, fitsD d n kv.2.schema = true) (propertiesFor d (n+1) s)
  | n, s, hs => by
    unfold propertiesFor
    simp only
    -- the schema whose own properties and allOf members are read: `s` itself or the target of its `$ref`; it fits n+1 either way
    refine Term.bind (P := fun (r : Schema × List String) => fitsD d (n+1) r.1 = true) ?_ ?_
    · split
      · rename_i hr
        split
        · simp
        · rename_i t ht
          simp only [term_ok]
          exact fitsD_mono d n t (fitsD_target hs hr ht)
      · exact hs
    · intro r hr
      refine foldlM_term (fun (acc : List (String × PropDefn) × List String) => ∀ kv ∈ acc.1, fitsD d n kv.2.schema = true) _ _ _ ?_ ?_
      · simp only
        split
        · exact foldl_upsert_all (fun (p : PropDefn) => fitsD d n p.schema = true)
            (fun (kv : String × Schema) => (kv.1, ({ schema := kv.2, required := r.1.required.contains kv.1 } : PropDefn)))
            _ [] (fun _ h => by cases h) (fun kv hkv => fitsD_prop hr hkv)
        · intro _ h; cases h
      · intro acc a ha hacc
        have hfa : fitsD d n a = true := fitsD_allOf hr ha
        obtain ⟨m, hm⟩ := fitsD_pos hfa
        subst hm
        refine Term.bind (propertiesFor_term d m a hfa) ?_
        intro pm hpm
        simp only [term_ok]
        exact foldl_upsert_all (fun (p : PropDefn) => fitsD d (m+1) p.schema = true) (fun (kv : String × PropDefn) => (kv.1, kv.2))
          _ _ hacc (fun kv hkv => fitsD_mono d m _ (hpm kv hkv))

theorem schemaLocationKey_term (l : Loc) : NoFuel (schemaLocationKey l) := by
  unfold schemaLocationKey
  split
  · simp
  · split <;> simp

theorem addChildDiffNode_term (d : Defs) (n : Nat) (l : Loc) (name : String) (s : Schema) (h : fitsD d n s = true) :
    NoFuel (addChildDiffNode n l name s) :=
  Term.bind (nodeOfProps_term d n name s h) (fun _ _ => by simp)

/-- what resolveBoth returns on schemas that fit `n`: both sides, when present, fit `n` too -/
def FitRes (cx : Ctx) (n : Nat) : Option (Option Schema × Option Schema × St) → Prop
  | none => True
  | some (o1, o2, _) => (∀ t1, o1 = some t1 → fitsD cx.defs1 n t1 = true) ∧ (∀ t2, o2 = some t2 → fitsD cx.defs2 n t2 = true)

theorem schemaFromRef_fits (st : St) (d : Defs) (n : Nat) (s : Schema) (hs : fitsD d (n+1) s = true) (hr : s.ref ≠ "") :
    ∀ t, (schemaFromRef st d s.ref).1 = some t → fitsD d (n+1) t = true := by
  intro t ht
  unfold schemaFromRef at ht
  split at ht
  · simp at ht
  · rename_i t' hl
    simp only [Option.some.injEq] at ht
    subst ht
    exact fitsD_mono d n _ (fitsD_target hs hr hl)

theorem resolveBoth_term (cx : Ctx) (n : Nat) (loc : Loc) (s1 s2 : Schema)
    (v1 : fitsD cx.defs1 (n+1) s1 = true) (v2 : fitsD cx.defs2 (n+1) s2 = true) (st : St) :
    Term (FitRes cx (n+1)) (resolveBoth cx loc s1 s2 st) := by
  unfold resolveBoth
  dsimp only
  refine Term.bind (P := fun r => match r with
      | none => True
      | some (o1, _) => ∀ t1, o1 = some t1 → fitsD cx.defs1 (n+1) t1 = true) ?_ ?_
  · refine term_ite (fun hr => ?_) (fun _ => ?_)
    · refine Term.bind (schemaLocationKey_term loc) (fun key _ => ?_)
      refine term_ite (fun _ => by simp) (fun _ => ?_)
      simp only [term_ok]
      exact schemaFromRef_fits _ _ n s1 v1 hr
    · simp only [term_ok]
      intro t1 e
      cases e
      exact v1
  · intro r hr
    cases r with
    | none => simp [FitRes]
    | some p =>
      obtain ⟨o1, st'⟩ := p
      simp only [term_ok, FitRes]
      refine ⟨hr, ?_⟩
      split
      · rename_i hr2
        exact schemaFromRef_fits _ _ n s2 v2 hr2
      · intro t2 e
        cases e
        exact v2

/-- a comparator that has enough fuel for schemas that fit `n` -/
abbrev CmpTerm (cx : Ctx) (n : Nat) (cmp : Cmp) : Prop :=
  ∀ loc s1 s2 st, fitsD cx.defs1 n s1 = true → fitsD cx.defs2 n s2 = true → NoFuel (cmp loc (some s1) (some s2) st)

theorem compareItems_term (cx : Ctx) (cmp : Cmp) (n : Nat) (hc : CmpTerm cx n cmp) (loc : Loc)
    (t1 t2 : Schema) (v1 : fitsD cx.defs1 (n+1) t1 = true) (v2 : fitsD cx.defs2 (n+1) t2 = true) (st : St) :
    NoFuel (compareItems cmp (n+1) loc t1 t2 st) := by
  unfold compareItems
  refine term_ite (fun _ => ?_) (fun _ => by simp)
  refine term_ite (fun _ => ?_) (fun _ => ?_)
  · refine term_ite (fun h => ?_) (fun _ => by simp)
    simp only [Bool.and_eq_true] at h
    obtain ⟨i1, e1⟩ := Option.isSome_iff_exists.mp h.1.1.2
    obtain ⟨i2, e2⟩ := Option.isSome_iff_exists.mp h.2
    rw [e1, e2]
    exact hc loc i1 i2 st (fitsD_item v1 e1) (fitsD_item v2 e2)
  · exact Term.bind (typeStrOfSchema_term cx.defs1 (n+1) t1 (fitsD_mono _ _ _ v1))
      (fun _ _ => Term.bind (typeStrOfSchema_term cx.defs2 (n+1) t2 (fitsD_mono _ _ _ v2)) (fun _ _ => by simp))

theorem propStep_term (cx : Ctx) (cmp : Cmp) (n : Nat) (hc : CmpTerm cx n cmp) (loc : Loc)
    (props2 : List (String × PropDefn)) (hp2 : ∀ kv ∈ props2, fitsD cx.defs2 n kv.2.schema = true)
    (acc : St × List (Loc × Code)) (kv : String × PropDefn) (hkv : fitsD cx.defs1 n kv.2.schema = true) :
    NoFuel (propStep cmp (n+1) loc props2 acc kv) := by
  unfold propStep
  refine Term.bind (addChildDiffNode_term cx.defs1 (n+1) loc kv.1 kv.2.schema (fitsD_mono _ _ _ hkv)) (fun childLoc _ => ?_)
  split
  · rename_i p2 hl2
    dsimp only
    exact Term.bind (hc childLoc _ _ acc.1 hkv (hp2 (kv.1, p2) (lookup_mem _ _ _ hl2))) (fun _ _ => by simp)
  · simp

theorem addedStep_term (d : Defs) (n : Nat) (loc : Loc) (t1 : Schema) (props2 : List (String × PropDefn))
    (acc : List (Loc × Code)) (kv : String × Schema) (h : fitsD d n kv.2 = true) : NoFuel (addedStep n loc t1 props2 acc kv) := by
  unfold addedStep
  refine term_ite (fun _ => by simp) (fun _ => ?_)
  exact Term.bind (addChildDiffNode_term d n loc kv.1 kv.2 h) (fun _ _ => by simp)

theorem compareProperties_term (cx : Ctx) (cmp : Cmp) (n : Nat) (hc : CmpTerm cx n cmp) (loc : Loc) (t1 t2 : Schema)
    (v1 : fitsD cx.defs1 (n+1) t1 = true) (v2 : fitsD cx.defs2 (n+1) t2 = true) (st : St) :
    NoFuel (compareProperties cx cmp (n+1) loc t1 t2 st) := by
  unfold compareProperties
  refine term_ite (fun _ => by simp) (fun _ => ?_)
  refine Term.bind (propertiesFor_term cx.defs1 n t1 v1) (fun pr1 hpr1 => ?_)
  refine Term.bind (propertiesFor_term cx.defs2 n t2 v2) (fun pr2 hpr2 => ?_)
  dsimp only
  refine Term.bind (P := fun _ => True) ?_ (fun r _ => ?_)
  · refine foldlM_term (fun _ => True) _ _ _ trivial ?_
    intro acc kv hkv _
    exact propStep_term cx cmp n hc loc pr2.1 hpr2 acc kv (hpr1 kv ((it_mem _ _ _).mp hkv))
  · refine Term.bind (P := fun _ => True) ?_ (fun _ _ => by simp)
    refine foldlM_term (fun _ => True) _ _ _ trivial ?_
    intro acc kv hkv _
    have hmem := (it_mem _ _ _).mp hkv
    split at hmem
    · exact addedStep_term cx.defs2 (n+1) loc t1 pr2.1 acc kv (fitsD_mono _ _ _ (fitsD_prop v2 hmem))
    · cases hmem

/-- **compareSchema never runs out of fuel on schemas that fit the fuel** (acyclic `$ref`s) -/
theorem compareSchema_term (cx : Ctx) : ∀ n, CmpTerm cx n (compareSchema cx (n+1))
  | 0 => by intro loc s1 s2 st h; simp [fitsD] at h
  | n+1 => by
    intro loc s1 s2 st v1 v2
    unfold compareSchema
    dsimp only
    refine Term.bind (checkRefChangeSchema_term cx.defs1 cx.defs2 (n+1) s1 s2 (fitsD_mono _ _ _ v1) (fitsD_mono _ _ _ v2)) (fun refDiffs _ => ?_)
    refine term_ite (fun _ => by simp) (fun _ => ?_)
    refine Term.bind (resolveBoth_term cx n loc s1 s2 v1 v2 st) ?_
    intro r hr
    match r, hr with
    | none, _ => simp
    | some (none, _, _), _ => simp
    | some (some t1, none, _), _ => simp
    | some (some t1, some t2, st'), h =>
      have w1 := h.1 t1 rfl
      have w2 := h.2 t2 rfl
      dsimp only
      refine Term.bind (compareProps_term cx.defs1 cx.defs2 (n+1) t1 t2 w1 w2) (fun typeDiffs _ => ?_)
      refine term_ite (fun _ => by simp) (fun _ => ?_)
      refine Term.bind (compareItems_term cx _ n (compareSchema_term cx n) loc t1 t2 w1 w2 _) (fun st'' _ => ?_)
      exact compareProperties_term cx _ n (compareSchema_term cx n) loc t1 t2 w1 w2 st''

/-! ### parameters, responses, definitions, Analyse -/

theorem forChain_fits (d : Defs) (k : Nat) (c : List Simple) : fitsD d (k+2) (forChain c) = true := by
  cases c with
  | nil => simp [forChain, fitsD, Schema.children]
  | cons s rest =>
    cases rest with
    | nil => simp [forChain, fitsD, Schema.children]
    | cons i r => simp [forChain, forItems, fitsD, Schema.children]

def ParamFits (d : Defs) (n : Nat) (p : Param) : Prop := ∀ sc, p.schema = some sc → fitsD d n sc = true
def RespFits (d : Defs) (n : Nat) (r : Response) : Prop := ∀ sc, r.schema = some sc → fitsD d n sc = true
def UMFits (d : Defs) (n : Nat) (u : UM) : Prop :=
  (∀ p ∈ u.item.params, ParamFits d n p) ∧ (∀ p ∈ u.op.params, ParamFits d n p) ∧ ∀ r ∈ u.op.responses, RespFits d n r

/-- every schema of the document, `$ref`s followed, is at most `n` levels deep -/
def Spec.Fits (n : Nat) (s : Spec) : Prop := (∀ kv ∈ s.defs, fitsD s.defs n kv.2 = true) ∧ ∀ u ∈ getURLMethodsFor s, UMFits s.defs n u

theorem compareParams_term (cx : Ctx) (n : Nat) (url method location name : String) (p1 p2 : Param)
    (k1 : ParamFits cx.defs1 (n+1) p1) (k2 : ParamFits cx.defs2 (n+1) p2) (st : St) :
    NoFuel (compareParams cx (n+2) url method location name p1 p2 st) := by
  unfold compareParams
  dsimp only
  refine Term.bind (P := fun _ => True) ?_ (fun r _ => ?_)
  · split
    · rename_i sc1 sc2 e1 e2
      refine Term.bind (P := fun _ => True) ?_ (fun cl _ => ?_)
      · refine term_ite (fun _ => ?_) (fun _ => by simp)
        exact Term.bind (nodeOfProps_term cx.defs2 (n+2) name sc2 (fitsD_mono _ _ _ (k2 sc2 e2))) (fun _ _ => by simp)
      · exact Term.bind (compareSchema_term cx (n+1) cl sc1 sc2 _ (k1 sc1 e1) (k2 sc2 e2)) (fun _ _ => by simp)
    · simp
  · refine Term.bind (compareProps_term cx.defs1 cx.defs2 (n+2) _ _ (forChain_fits _ n _) (forChain_fits _ n _)) (fun diffs _ => ?_)
    refine Term.bind (nodeOfSimple_term name p2.chain) (fun nd _ => ?_)
    exact compareSimpleSchema_term _ p1.chain p2.chain _

theorem analyseRequestParams_term (cx : Ctx) (n : Nat) (u1 u2 : List UM)
    (k1 : ∀ u ∈ u1, UMFits cx.defs1 (n+1) u) (k2 : ∀ u ∈ u2, UMFits cx.defs2 (n+1) u) (st : St) :
    NoFuel (analyseRequestParams cx (n+2) u1 u2 st) := by
  unfold analyseRequestParams
  refine foldlM_term (fun _ => True) _ _ _ trivial ?_
  intro st paramLocation _ _
  dsimp only
  refine foldlM_term (fun _ => True) _ _ _ trivial ?_
  intro st um2 hum2 _
  have o2 := k2 um2 ((it_mem _ _ _).mp hum2)
  split
  · simp
  · rename_i um1 hf
    have o1 := k1 um1 (findBy_mem _ _ _ _ hf)
    skip
    have a1 := getParams_all (ParamFits cx.defs1 (n+1)) um1.item.params um1.op.params paramLocation o1.1 o1.2.1
    have a2 := getParams_all (ParamFits cx.defs2 (n+1)) um2.item.params um2.op.params paramLocation o2.1 o2.2.1
    refine Term.bind (P := fun _ => True) ?_ (fun st _ => ?_)
    · refine foldlM_term (fun _ => True) _ _ _ trivial ?_
      intro st kv _ _
      refine term_ite (fun _ => by simp) (fun _ => ?_)
      exact Term.bind (nodeOfSimple_term _ _) (fun _ _ => by simp)
    · refine foldlM_term (fun _ => True) _ _ _ trivial ?_
      intro st kv hkv _
      have b2 := a2 kv ((it_mem _ _ _).mp hkv)
      split
      · rename_i p1 hl1
        exact compareParams_term cx n _ _ _ _ p1 kv.2 (a1 (kv.1, p1) (lookup_mem _ _ _ hl1)) b2 st
      · exact Term.bind (nodeOfSimple_term _ _) (fun _ _ => by simp)

theorem bodyNode_term (d : Defs) (n : Nat) (os : Option Schema) (h : ∀ sc, os = some sc → fitsD d n sc = true) : NoFuel (bodyNode n os) := by
  unfold bodyNode
  split
  · simp
  · rename_i s
    exact nodeOfProps_term d n _ _ (h s rfl)

theorem bodyNode'_term (d : Defs) (n : Nat) (os : Option Schema) (h : ∀ sc, os = some sc → fitsD d n sc = true) :
    NoFuel (match os with
      | none => Outcome.ok (nameNode "NoContent")
      | some s => nodeOfProps n "Body" s) := by
  split
  · simp
  · rename_i s
    exact nodeOfProps_term d n _ _ (h s rfl)

theorem analyseResponseParams_term (cx : Ctx) (n : Nat) (u1 u2 : List UM)
    (k1 : ∀ u ∈ u1, UMFits cx.defs1 (n+1) u) (k2 : ∀ u ∈ u2, UMFits cx.defs2 (n+1) u) (st : St) :
    NoFuel (analyseResponseParams cx (n+2) u1 u2 st) := by
  unfold analyseResponseParams
  refine foldlM_term (fun _ => True) _ _ _ trivial ?_
  intro st um2 hum2 _
  have o2 := k2 um2 ((it_mem _ _ _).mp hum2)
  split
  · simp
  · rename_i um1 hf
    have o1 := k1 um1 (findBy_mem _ _ _ _ hf)
    dsimp only
    refine Term.bind (P := fun _ => True) ?_ (fun st _ => ?_)
    · refine foldlM_term (fun _ => True) _ _ _ trivial ?_
      intro st resp1 hr1 _
      have q1 := o1.2.2 resp1 ((it_mem _ _ _).mp hr1)
      refine term_ite (fun _ => by simp) (fun _ => ?_)
      exact Term.bind (bodyNode'_term cx.defs1 (n+2) resp1.schema (fun sc e => fitsD_mono _ _ _ (q1 sc e))) (fun _ _ => by simp)
    · refine foldlM_term (fun _ => True) _ _ _ trivial ?_
      intro st resp2 hr2 _
      have q2 := o2.2.2 resp2 ((it_mem _ _ _).mp hr2)
      split
      · exact Term.bind (bodyNode_term cx.defs2 (n+2) resp2.schema (fun sc e => fitsD_mono _ _ _ (q2 sc e))) (fun _ _ => by simp)
      · rename_i resp1 hf1
        have q1 := o1.2.2 resp1 (findBy_mem _ _ _ _ hf1)
        skip
        refine Term.bind (P := fun _ => True) ?_ (fun st _ => ?_)
        · refine foldlM_term (fun _ => True) _ _ _ trivial ?_
          intro st hdr2 _ _
          split
          · exact Term.bind (compareProps_term cx.defs1 cx.defs2 (n+2) _ _ (forChain_fits _ n _) (forChain_fits _ n _)) (fun _ _ => by simp)
          · exact Term.bind (nodeOfSimple_term _ _) (fun _ _ => by simp)
        refine Term.bind (P := fun _ => True) ?_ (fun st _ => ?_)
        · refine foldlM_term (fun _ => True) _ _ _ trivial ?_
          intro st hdr1 _ _
          refine term_ite (fun _ => by simp) (fun _ => ?_)
          exact Term.bind (nodeOfSimple_term _ _) (fun _ _ => by simp)
        refine Term.bind (bodyNode'_term cx.defs1 (n+2) resp1.schema (fun sc e => fitsD_mono _ _ _ (q1 sc e))) (fun nd _ => ?_)
        skip
        split
        · rename_i s1 e1 _
          exact Term.bind (nodeOfProps_term cx.defs1 (n+2) _ _ (fitsD_mono _ _ _ (q1 s1 e1))) (fun _ _ => by simp)
        · rename_i s1 s2 e1 e2
          refine Term.bind (nodeOfProps_term cx.defs1 (n+2) _ _ (fitsD_mono _ _ _ (q1 s1 e1))) (fun nd' _ => ?_)
          exact compareSchema_term cx (n+1) _ s1 s2 _ (q1 s1 e1) (q2 s2 e2)
        · rename_i s2 _ e2
          exact Term.bind (nodeOfProps_term cx.defs2 (n+2) _ _ (fitsD_mono _ _ _ (q2 s2 e2))) (fun _ _ => by simp)
        · simp

theorem analyseDefinitions_term (cx : Ctx) (n : Nat) (h1 : ∀ kv ∈ cx.defs1, fitsD cx.defs1 (n+1) kv.2 = true)
    (h2 : ∀ kv ∈ cx.defs2, fitsD cx.defs2 (n+1) kv.2 = true) (st : St) :
    NoFuel (analyseDefinitions cx (n+2) st) := by
  unfold analyseDefinitions
  dsimp only
  refine Term.bind (P := fun _ => True) ?_ (fun _ _ => by simp)
  refine foldlM_term (fun _ => True) _ _ _ trivial ?_
  intro st kv hkv _
  refine term_ite (fun _ => by simp) (fun _ => ?_)
  skip
  split
  · rename_i s2 hl2
    exact compareSchema_term cx (n+1) _ kv.2 s2 st (h1 kv ((it_mem _ _ _).mp hkv)) (h2 (kv.1, s2) (lookup_mem _ _ _ hl2))
  · simp

/-- **Termination (acyclic case).** If every schema of both documents, `$ref`s followed, is at most `n+1` levels deep, the
    analyser returns (or panics — excluded by `analyse_safe` on valid documents) with fuel `n+2`: it does not loop. -/
theorem analyse_term (fl : Flags) (n : Nat) (a b : Spec) (ha : a.Fits (n+1)) (hb : b.Fits (n+1)) : NoFuel (analyse fl (n+2) a b) := by
  unfold analyse
  dsimp only
  refine Term.bind (analyseRequestParams_term _ n _ _ ha.2 hb.2 _) (fun st _ => ?_)
  refine Term.bind (analyseResponseParams_term _ n _ _ ha.2 hb.2 _) (fun st _ => ?_)
  exact Term.bind (analyseDefinitions_term _ n ha.1 hb.1 _) (fun _ _ => by simp)

/-! ### the same as a computable check -/

def Spec.fitsB (n : Nat) (s : Spec) : Bool :=
  s.defs.all (fun kv => fitsD s.defs n kv.2) &&
  (getURLMethodsFor s).all (fun u =>
    (u.item.params ++ u.op.params).all (fun p => match p.schema with | none => true | some sc => fitsD s.defs n sc) &&
    u.op.responses.all (fun r => match r.schema with | none => true | some sc => fitsD s.defs n sc))

theorem Spec.fits_of_fitsB (n : Nat) (s : Spec) (h : s.fitsB n = true) : s.Fits n := by
  simp only [Spec.fitsB, Bool.and_eq_true, List.all_eq_true, List.mem_append] at h
  refine ⟨fun kv hkv => h.1 kv hkv, fun u hu => ⟨?_, ?_, ?_⟩⟩
  · intro p hp sc hsc
    have := (h.2 u hu).1 p (Or.inl hp)
    simpa [hsc] using this
  · intro p hp sc hsc
    have := (h.2 u hu).1 p (Or.inr hp)
    simpa [hsc] using this
  · intro r hr sc hsc
    have := (h.2 u hu).2 r hr
    simpa [hsc] using this

/-- valid + acyclic: the analyser returns a report -/
theorem analyse_returns (fl : Flags) (n : Nat) (a b : Spec) (va : a.Valid) (vb : b.Valid)
    (fa : a.fitsB (n+1) = true) (fb : b.fitsB (n+1) = true) : (analyse fl (n+2) a b).isOk = true := by
  have h1 := analyse_safe fl (n+2) a b va vb
  have h2 := analyse_term fl n a b (a.fits_of_fitsB _ fa) (b.fits_of_fitsB _ fb)
  cases h : analyse fl (n+2) a b with
  | ok _ => rfl
  | panic w => rw [h] at h1; exact h1.elim
  | fuel => rw [h] at h2; exact h2.elim

end Gs.Diff
