import GsModel.Base.Outcome
import GsModel.Gen.DiffTables
/-
  Data model of `cmd/swagger/commands/diff`: the part of a Swagger 2.0 document the analyser reads,
  and the report entries it writes.  One Lean structure per Go structure; Go maps are association
  lists (distinct keys: predicate `WF`), Go pointers that may be nil are `Option`s or carry a `has…` flag.
-/
namespace Gs.Diff
open Gs Gs.Gen

/-- An `interface{}` value as decoded from JSON.  `kind`: 0 nil, 1 bool, 2 float64, 3 string,
    4 []interface{}, 5 map[string]interface{}.  `canon` is the canonical JSON text (decides equality),
    `shown` is Go's `%v` rendering (used for enum values). -/
structure JVal where
  kind : Nat
  canon : String
  shown : String
  deriving DecidableEq, Repr, Inhabited

/-- spec.CommonValidations (numbers scaled by 1000 so that three decimals are exact). -/
structure Valids where
  maximum : Option Int := none
  exclMax : Bool := false
  minimum : Option Int := none
  exclMin : Bool := false
  maxLength : Option Int := none
  minLength : Option Int := none
  pattern : String := ""
  maxItems : Option Int := none
  minItems : Option Int := none
  uniqueItems : Bool := false
  multipleOf : Option Int := none
  enum : List JVal := []
  deriving DecidableEq, Repr, Inhabited

/-- One level of spec.SimpleSchema (+ its validations); nesting through `items` is a list of levels. -/
structure Simple where
  type : String := ""
  format : String := ""
  cf : String := ""
  nullable : Bool := false
  dflt : Option JVal := none
  exmpl : Option JVal := none
  v : Valids := {}
  deriving DecidableEq, Repr, Inhabited

/-- spec.Schema, the fields the analyser reads. `hasProps` = `Properties != nil`;
    `hasItems` = `Items != nil`, `itemOne` = `Items.Schema`, `itemMany` = `Items.Schemas`. -/
structure Schema where
  ref : String := ""            -- "" : no $ref ; otherwise the last segment of the fragment
  type : List String := []
  format : String := ""
  desc : String := ""
  v : Valids := {}
  required : List String := []
  hasProps : Bool := false
  props : List (String × Schema) := []
  hasItems : Bool := false
  itemOne : Option Schema := none
  itemMany : List Schema := []
  allOf : List Schema := []
  deriving Repr, Inhabited

abbrev Defs := List (String × Schema)

structure Header where
  name : String
  chain : List Simple      -- header's own SimpleSchema :: items levels
  deriving Repr, Inhabited

structure Param where
  name : String
  loc : String                -- `in`
  required : Bool := false
  desc : String := ""
  chain : List Simple         -- the parameter's own SimpleSchema :: items levels (never empty)
  schema : Option Schema := none
  deriving Repr, Inhabited

structure Response where
  code : Nat
  desc : String := ""
  headers : List Header := []
  schema : Option Schema := none
  deriving Repr, Inhabited

structure Operation where
  method : String
  deprecated : Bool := false
  tags : Option (List String) := none
  desc : String := ""
  params : List Param := []
  responses : List Response := []
  deriving Repr, Inhabited

structure PathItem where
  url : String
  params : List Param := []
  optionsDeprecated : Bool := false   -- ParentPathItem.Options != nil && Options.Deprecated
  ops : List Operation := []
  deriving Repr, Inhabited

structure Spec where
  consumes : Option (List String) := none
  produces : Option (List String) := none
  schemes : Option (List String) := none
  host : String := ""
  basePath : String := ""
  infoDesc : String := ""
  paths : List PathItem := []
  defs : Defs := []
  deriving Repr, Inhabited

/-! ### report entries -/

structure NodeSeg where
  field : String
  typeName : String := ""
  isArray : Bool := false
  deriving DecidableEq, Repr, Inhabited

/-- DifferenceLocation; `node = []` is the nil node, otherwise the chain root first. -/
structure Loc where
  url : String := ""
  method : String := ""
  response : Nat := 0
  node : List NodeSeg := []
  deriving DecidableEq, Repr, Inhabited

structure Diff where
  loc : Loc
  code : Code
  compat : Compat
  info : String := ""
  deriving DecidableEq, Repr, Inhabited

/-- TypeDiff -/
structure TDiff where
  change : Code
  desc : String := ""
  fromT : String := ""
  toT : String := ""
  deriving DecidableEq, Repr, Inhabited

end Gs.Diff
