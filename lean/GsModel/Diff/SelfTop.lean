import GsModel.Diff.SelfMain
/-
  C12 (identity), top level: every pass of `Analyse` leaves the differences unchanged on equal documents.
-/
namespace Gs.Diff
open Gs Gs.Gen Gs.Outcome

theorem findBy_of_mem {α β} [DecidableEq β] (key : α → β) :
    ∀ (l : List α) (x : α), x ∈ l → (findBy key (key x) l).isSome = true
  | [], _, h => by cases h
  | y :: ys, x, h => by
    unfold findBy
    simp only [List.find?]
    by_cases e : key y = key x
    · simp [e]
    · simp only [e, decide_false]
      rcases List.mem_cons.mp h with h | h
      · exact absurd (by rw [h]) e
      · exact findBy_of_mem key ys x h

theorem findBy_distinct {α β} [DecidableEq β] (key : α → β) :
    ∀ (l : List α), distinctBy key l = true → ∀ x ∈ l, findBy key (key x) l = some x
  | [], _, _, h => by cases h
  | y :: ys, hd, x, h => by
    unfold findBy
    simp only [List.find?]
    simp only [distinctBy, Bool.and_eq_true, List.all_eq_true, decide_eq_true_eq] at hd
    rcases List.mem_cons.mp h with h | h
    · subst h; simp
    · have : key y ≠ key x := fun e => hd.1 x h e.symm
      simp only [this, decide_false]
      exact findBy_distinct key ys hd.2 x h

theorem keysDistinct_of_distinctBy {α} : ∀ (m : List (String × α)),
    distinctBy (fun (kv : String × α) => kv.1) m = true → keysDistinct m
  | [], _ => trivial
  | (k, v) :: tl, h => by
    simp only [distinctBy, Bool.and_eq_true, List.all_eq_true, decide_eq_true_eq] at h
    exact ⟨fun kv hkv => h.1 kv hkv, keysDistinct_of_distinctBy tl h.2⟩

theorem getParams_distinct (pp op : List Param) (loc : String) : keysDistinct (getParams pp op loc) := by
  unfold getParams
  have step : ∀ (l : List Param) (m : List (String × Param)), keysDistinct m →
      keysDistinct (l.foldl (fun m p => if p.loc = loc then upsert m p.name p else m) m) := by
    intro l
    induction l with
    | nil => intro m h; exact h
    | cons p ps ih =>
      intro m h
      simp only [List.foldl]
      apply ih
      split
      · exact upsert_distinct _ _ _ h
      · exact h
  exact step _ _ (step _ _ trivial)

theorem analyseSpecMetadata_self (s : Spec) (st : St) : analyseSpecMetadata s s st = st := by
  simp [analyseSpecMetadata, analyseMetaDataProperty]

theorem findDeletedEndpoints_self (rev : Nat) (u : List UM) (st : St) : findDeletedEndpoints rev u u st = st := by
  unfold findDeletedEndpoints
  refine foldl_inv (fun s => s = st) _ _ _ rfl ?_
  intro b a ha hb
  have : (findUM u a.url a.method).isSome = true := findBy_of_mem UM.key u a ((it_mem _ _ _).mp ha)
  simp only [Option.isNone_iff_eq_none]
  cases h : findUM u a.url a.method with
  | none => rw [h] at this; cases this
  | some _ => simpa using hb

theorem findAddedEndpoints_self (rev : Nat) (u : List UM) (st : St) : findAddedEndpoints rev u u st = st := by
  unfold findAddedEndpoints
  refine foldl_inv (fun s => s = st) _ _ _ rfl ?_
  intro b a ha hb
  have : (findUM u a.url a.method).isSome = true := findBy_of_mem UM.key u a ((it_mem _ _ _).mp ha)
  cases h : findUM u a.url a.method with
  | none => rw [h] at this; cases this
  | some _ => simpa using hb

theorem analyseEndpointData_self (rev : Nat) (u : List UM) (hu : distinctBy UM.key u = true) (st : St) :
    analyseEndpointData rev u u st = st := by
  unfold analyseEndpointData
  refine foldl_inv (fun s => s = st) _ _ _ rfl ?_
  intro b a ha hb
  have h : findUM u a.url a.method = some a := findBy_distinct UM.key u hu a ((it_mem _ _ _).mp ha)
  simp only [h, diffsTo_self_opt, List.foldl_nil, compareDescripton_self]
  exact hb

theorem compareParams_self (cx : Ctx) (hd : cx.defs1 = cx.defs2) (n : Nat) (url method location name : String)
    (p : Param) (st : St) : KeepsD st (compareParams cx n url method location name p p st) := by
  unfold compareParams
  simp only [compareDescripton_self, compareProps_self, ok_bind', addDiffs_nil, checkToFromRequired_self]
  refine Holds.bind (P := fun (r : Loc × St) => r.2.diffs = st.diffs) ?_ ?_
  · cases p.schema with
    | none => simp
    | some sc =>
      simp only
      refine Holds.bind (P := fun _ => True) (Holds.of_true _ (fun _ => trivial)) ?_
      intro cl _
      refine Holds.bind (compareSchema_self cx hd n cl (some sc) st) ?_
      intro st' h
      simpa using h
  · intro r hr
    refine Holds.bind (P := fun _ => True) (Holds.of_true _ (fun _ => trivial)) ?_
    intro nd _
    exact Holds.mono (compareSimpleSchema_self _ p.chain r.2) (fun a ha => ha.trans hr)

theorem analyseRequestParams_self (cx : Ctx) (hd : cx.defs1 = cx.defs2) (n : Nat) (u : List UM)
    (hu : distinctBy UM.key u = true) (st : St) : KeepsD st (analyseRequestParams cx n u u st) := by
  unfold analyseRequestParams
  refine foldlM_holds (fun (s : St) => s.diffs = st.diffs) _ _ _ rfl ?_
  intro st1 paramLocation _ h1
  refine foldlM_holds (fun (s : St) => s.diffs = st.diffs) _ _ _ h1 ?_
  intro st2 um2 hum h2
  have h : findUM u um2.url um2.method = some um2 := findBy_distinct UM.key u hu um2 ((it_mem _ _ _).mp hum)
  simp only [h]
  refine Holds.bind (P := fun (s : St) => s.diffs = st.diffs) ?_ ?_
  · refine foldlM_holds (fun (s : St) => s.diffs = st.diffs) _ _ _ h2 ?_
    intro st3 kv hkv h3
    simp [hasKey_of_mem _ kv ((it_mem _ _ _).mp hkv), h3]
  · intro st3 h3
    refine foldlM_holds (fun (s : St) => s.diffs = st.diffs) _ _ _ h3 ?_
    intro st4 kv hkv h4
    rw [lookup_distinct _ (getParams_distinct _ _ _) kv ((it_mem _ _ _).mp hkv)]
    exact Holds.mono (compareParams_self cx hd n _ _ _ _ kv.2 st4) (fun a ha => ha.trans h4)

theorem analyseResponseParams_self (cx : Ctx) (hd : cx.defs1 = cx.defs2) (n : Nat) (u : List UM)
    (hu : distinctBy UM.key u = true)
    (hr : ∀ um ∈ u, distinctBy (fun (r : Response) => r.code) um.op.responses = true ∧
        ∀ r ∈ um.op.responses, distinctBy (fun (h : Header) => h.name) r.headers = true)
    (st : St) : KeepsD st (analyseResponseParams cx n u u st) := by
  unfold analyseResponseParams
  refine foldlM_holds (fun (s : St) => s.diffs = st.diffs) _ _ _ rfl ?_
  intro st1 um2 hum h1
  have hmem := (it_mem _ _ _).mp hum
  have h : findUM u um2.url um2.method = some um2 := findBy_distinct UM.key u hu um2 hmem
  simp only [h]
  refine Holds.bind (P := fun (s : St) => s.diffs = st.diffs) ?_ ?_
  · refine foldlM_holds (fun (s : St) => s.diffs = st.diffs) _ _ _ h1 ?_
    intro st2 resp1 hresp h2
    have : (findResp um2.op.responses resp1.code).isSome = true :=
      findBy_of_mem (fun (r : Response) => r.code) _ resp1 ((it_mem _ _ _).mp hresp)
    simp [this, h2]
  · intro st2 h2
    refine foldlM_holds (fun (s : St) => s.diffs = st.diffs) _ _ _ h2 ?_
    intro st3 resp2 hresp h3
    have hrm := (it_mem _ _ _).mp hresp
    have hf : findResp um2.op.responses resp2.code = some resp2 :=
      findBy_distinct (fun (r : Response) => r.code) _ (hr um2 hmem).1 resp2 hrm
    simp only [hf]
    have hhd := (hr um2 hmem).2 resp2 hrm
    refine Holds.bind (P := fun (s : St) => s.diffs = st.diffs) ?_ ?_
    · refine foldlM_holds (fun (s : St) => s.diffs = st.diffs) _ _ _ h3 ?_
      intro st4 h2' hh h4
      have : findHeader resp2.headers h2'.name = some h2' :=
        findBy_distinct (fun (h : Header) => h.name) _ hhd h2' ((it_mem _ _ _).mp hh)
      simp [this, h4]
    · intro st4 h4
      refine Holds.bind (P := fun (s : St) => s.diffs = st.diffs) ?_ ?_
      · refine foldlM_holds (fun (s : St) => s.diffs = st.diffs) _ _ _ h4 ?_
        intro st5 h1' hh h5
        have : (findHeader resp2.headers h1'.name).isSome = true :=
          findBy_of_mem (fun (h : Header) => h.name) _ h1' ((it_mem _ _ _).mp hh)
        simp [this, h5]
      · intro st5 h5
        refine Holds.bind (P := fun _ => True) (Holds.of_true _ (fun _ => trivial)) ?_
        intro nd _
        simp only [compareDescripton_self]
        cases resp2.schema with
        | none => simpa using h5
        | some s2 =>
          simp only
          refine Holds.bind (P := fun _ => True) (Holds.of_true _ (fun _ => trivial)) ?_
          intro nd' _
          exact Holds.mono (compareSchema_self cx hd n _ (some s2) st5) (fun a ha => ha.trans h5)

theorem analyseDefinitions_self (cx : Ctx) (hd : cx.defs1 = cx.defs2) (hk : keysDistinct cx.defs1) (n : Nat) (st : St) :
    KeepsD st (analyseDefinitions cx n st) := by
  unfold analyseDefinitions
  refine Holds.bind (P := fun (s : St) => s.diffs = st.diffs) ?_ ?_
  · refine foldlM_holds (fun (s : St) => s.diffs = st.diffs) _ _ _ rfl ?_
    intro st1 kv hkv h1
    split
    · simpa using h1
    · rw [← hd, lookup_distinct _ hk kv ((it_mem _ _ _).mp hkv)]
      exact Holds.mono (compareSchema_self cx hd n _ (some kv.2) st1) (fun a ha => ha.trans h1)
  · intro st1 h1
    simp only [holds_ok]
    refine foldl_inv (fun (s : St) => s.diffs = st.diffs) _ _ _ h1 ?_
    intro b kv hkv hb
    rw [← hd] at hkv
    simp [hasKey_of_mem _ kv ((it_mem _ _ _).mp hkv), hb]

end Gs.Diff
