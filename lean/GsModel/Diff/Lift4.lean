import GsModel.Diff.Lift3
/-
  C13, lifting (continued): a response code that disappears is a Breaking entry of every report.
-/
namespace Gs.Diff
open Gs Gs.Gen Gs.Outcome

/-- the "deleted responses" loop body of analyseResponseParams, named -/
def delRespStep (n : Nat) (base : Loc) (r2 : List Response) (st : St) (resp1 : Response) : Outcome St :=
  if (findResp r2 resp1.code).isSome then .ok st else
  (match resp1.schema with
   | none => Outcome.ok (nameNode "NoContent")
   | some s => nodeOfProps n "Body" s).bind fun nd =>
  .ok (st.addDiff { base with response := resp1.code, node := [nd] } Code.DeletedResponse)

/-- the second loop of analyseResponseParams for one endpoint (added / changed responses), named -/
def respRest (cx : Ctx) (n : Nat) (r1 r2 : List Response) (base : Loc) (st : St) : Outcome St :=
  Outcome.foldlM (fun st (resp2 : Response) =>
      match findResp r1 resp2.code with
      | none =>
        (bodyNode n resp2.schema).bind fun nd =>
          .ok (st.addDiff { base with response := resp2.code, node := [nd] } Code.AddedResponse)
      | some resp1 =>
        let location : Loc := { base with response := resp2.code, node := [nameNode "Headers"] }
        (Outcome.foldlM (fun st (h2 : Header) =>
            match findHeader resp1.headers h2.name with
            | some h1 =>
              (compareProps n (forChain h1.chain) (forChain h2.chain)).bind fun ds => .ok (st.addDiffs location ds)
            | none =>
              (nodeOfSimple h2.name h2.chain).bind fun nd =>
                .ok (st.addDiff (location.addNode nd) Code.AddedResponseHeader))
          st (it cx.rev resp2.headers)).bind fun st =>
        (Outcome.foldlM (fun st (h1 : Header) =>
            if (findHeader resp2.headers h1.name).isSome then .ok st else
            (nodeOfSimple h1.name h1.chain).bind fun nd =>
              .ok (st.addDiff (location.addNode nd) Code.DeletedResponseHeader))
          st (it cx.rev resp1.headers)).bind fun st =>
        (match resp1.schema with
         | none => Outcome.ok (nameNode "NoContent")
         | some s => nodeOfProps n "Body" s).bind fun nd =>
        let st := st.compareDescripton { base with response := resp2.code, node := [nd] } resp1.desc resp2.desc
        match resp1.schema, resp2.schema with
        | some s1, none =>
          (nodeOfProps n "Body" s1).bind fun nd =>
            .ok (st.addDiff { base with response := resp2.code, node := [nd] } Code.DeletedProperty)
        | some s1, some s2 =>
          (nodeOfProps n "Body" s1).bind fun nd =>
            compareSchema cx n { base with response := resp2.code, node := [nd] } (some s1) (some s2) st
        | none, some s2 =>
          (nodeOfProps n "Body" s2).bind fun nd =>
            .ok (st.addDiff { base with response := resp2.code, node := [nd] } Code.AddedProperty)
        | none, none => .ok st)
    st (it cx.rev r2)

def respStep (cx : Ctx) (n : Nat) (u1 : List UM) (st : St) (um2 : UM) : Outcome St :=
  match findUM u1 um2.url um2.method with
  | none => .ok st
  | some um1 =>
    let base : Loc := { url := um2.url, method := um2.method }
    (Outcome.foldlM (delRespStep n base um2.op.responses) st (it cx.rev um1.op.responses)).bind fun st =>
    respRest cx n um1.op.responses um2.op.responses base st

theorem analyseResponseParams_eq (cx : Ctx) (n : Nat) (u1 u2 : List UM) (st : St) :
    analyseResponseParams cx n u1 u2 st = Outcome.foldlM (respStep cx n u1) st (it cx.rev u2) := rfl

theorem delRespStep_mono (n : Nat) (base : Loc) (r2 : List Response) (st : St) (resp1 : Response) :
    Mono st (delRespStep n base r2 st resp1) := by
  unfold delRespStep
  split
  · exact Sub.refl _
  · refine Holds.bind (bodyNode'_true n resp1.schema) (fun nd _ => ?_)
    exact addDiff_sub _ _ _ _

theorem respRest_mono (cx : Ctx) (n : Nat) (r1 r2 : List Response) (base : Loc) (st : St) : Mono st (respRest cx n r1 r2 base st) := by
  unfold respRest
  refine foldlM_mono _ _ st st (Sub.refl _) (fun st resp2 _ => ?_)
  split
  · refine Holds.bind (P := fun _ => True) (Holds.of_true _ (fun _ => trivial)) (fun nd _ => ?_)
    exact addDiff_sub _ _ _ _
  · skip
    refine Holds.bind (P := Sub st) ?_ (fun st2 h2 => ?_)
    · refine foldlM_mono _ _ st st (Sub.refl _) (fun b hdr2 _ => ?_)
      split
      · refine Holds.bind (P := fun _ => True) (Holds.of_true _ (fun _ => trivial)) (fun ds _ => ?_)
        exact addDiffs_sub _ _ _
      · refine Holds.bind (P := fun _ => True) (Holds.of_true _ (fun _ => trivial)) (fun nd _ => ?_)
        exact addDiff_sub _ _ _ _
    refine Holds.bind (P := Sub st) ?_ (fun st3 h3 => ?_)
    · refine foldlM_mono _ _ st st2 h2 (fun b hdr1 _ => ?_)
      split
      · exact Sub.refl _
      · refine Holds.bind (P := fun _ => True) (Holds.of_true _ (fun _ => trivial)) (fun nd _ => ?_)
        exact addDiff_sub _ _ _ _
    refine Holds.bind (bodyNode'_true n _) (fun nd _ => ?_)
    have h4 : ∀ l : Loc, Sub st (st3.compareDescripton l (by assumption : Response).desc resp2.desc) :=
      fun l => h3.trans (compareDescripton_sub _ _ _ _)
    split
    · refine Holds.bind (P := fun _ => True) (Holds.of_true _ (fun _ => trivial)) (fun nd' _ => ?_)
      exact (h4 _).trans (addDiff_sub _ _ _ _)
    · refine Holds.bind (P := fun _ => True) (Holds.of_true _ (fun _ => trivial)) (fun nd' _ => ?_)
      exact Mono.trans (h4 _) (compareSchema_mono cx n _ _ _ _)
    · refine Holds.bind (P := fun _ => True) (Holds.of_true _ (fun _ => trivial)) (fun nd' _ => ?_)
      exact (h4 _).trans (addDiff_sub _ _ _ _)
    · exact h4 _

theorem respStep_mono (cx : Ctx) (n : Nat) (u1 : List UM) (st : St) (um2 : UM) : Mono st (respStep cx n u1 st um2) := by
  unfold respStep
  split
  · exact Sub.refl _
  · dsimp only
    refine Holds.bind (foldlM_mono _ _ st st (Sub.refl _) (fun b a _ => delRespStep_mono n _ _ b a)) (fun st1 h1 => ?_)
    exact Mono.trans h1 (respRest_mono cx n _ _ _ st1)

theorem delRespStep_hits (n : Nat) (base : Loc) (r2 : List Response) (st : St) (resp1 : Response)
    (hgone : findResp r2 resp1.code = none) (hpos : resp1.code > 0) :
    Holds HasBreaking (delRespStep n base r2 st resp1) := by
  unfold delRespStep
  simp only [hgone, Option.isSome_none, Bool.false_eq_true, if_false]
  refine Holds.bind (bodyNode'_true n resp1.schema) (fun nd _ => ?_)
  simp only [holds_ok]
  refine addDiff_has _ _ _ _ ?_
  simp only [gt_iff_lt, hpos, decide_true]
  decide

theorem analyseResponseParams_hits (cx : Ctx) (n : Nat) (u1 u2 : List UM) (um1 um2 : UM) (hum2 : um2 ∈ u2)
    (hf : findUM u1 um2.url um2.method = some um1) (resp1 : Response) (hr1 : resp1 ∈ um1.op.responses)
    (hgone : findResp um2.op.responses resp1.code = none) (hpos : resp1.code > 0) (st : St) :
    Holds HasBreaking (analyseResponseParams cx n u1 u2 st) := by
  rw [analyseResponseParams_eq]
  refine foldlM_reach HasBreaking _ um2 _ ((it_mem _ _ _).mpr hum2) ?_ ?_ st
  · intro b
    unfold respStep
    simp only [hf]
    refine Holds.bind (P := HasBreaking) ?_ (fun st1 hb1 => ?_)
    · exact foldlM_reach HasBreaking _ resp1 _ ((it_mem _ _ _).mpr hr1) (fun b' => delRespStep_hits n _ _ b' resp1 hgone hpos)
        (fun b' a hb' => hb'.keep (delRespStep_mono n _ _ b' a)) b
    · exact hb1.keep (respRest_mono cx n _ _ _ st1)
  · intro b a hb
    exact hb.keep (respStep_mono cx n u1 b a)

/-- **Lifting, removed response code.** -/
theorem analyse_reports_removed_response (fl : Flags) (n : Nat) (a b : Spec) (um1 um2 : UM) (hum2 : um2 ∈ getURLMethodsFor b)
    (hf : findUM (getURLMethodsFor a) um2.url um2.method = some um1) (resp1 : Response) (hr1 : resp1 ∈ um1.op.responses)
    (hgone : findResp um2.op.responses resp1.code = none) (hpos : resp1.code > 0) :
    Holds (fun ds => ∃ d ∈ ds, d.compat = Compat.Breaking) (analyse fl n a b) := by
  unfold analyse
  dsimp only
  refine Holds.bind (P := fun _ => True) (Holds.of_true _ (fun _ => trivial)) (fun st1 _ => ?_)
  refine Holds.bind (analyseResponseParams_hits _ n _ _ um1 um2 hum2 hf resp1 hr1 hgone hpos _) (fun st3 hb3 => ?_)
  refine Holds.bind (hb3.keep (analyseDefinitions_mono _ n _)) (fun st4 hb4 => ?_)
  exact hb4

end Gs.Diff
