import GsModel.Base.Outcome
/-
  Partial-correctness triples for the `Outcome` monad: `Holds P x` says "if `x` returns normally, the
  result satisfies `P`" (panics are the business of totality theorems, fuel of termination theorems).
-/
namespace Gs
namespace Outcome

def Holds {α} (P : α → Prop) : Outcome α → Prop
  | .ok a => P a
  | _ => True

@[simp] theorem holds_ok {α} (P : α → Prop) (a : α) : Holds P (.ok a) = P a := rfl
@[simp] theorem holds_panic {α} (P : α → Prop) (w : String) : Holds P (.panic w) = True := rfl
@[simp] theorem holds_fuel {α} (P : α → Prop) : Holds P (.fuel : Outcome α) = True := rfl

theorem Holds.bind {α β} {P : α → Prop} {Q : β → Prop} {x : Outcome α} {f : α → Outcome β}
    (hx : Holds P x) (hf : ∀ a, P a → Holds Q (f a)) : Holds Q (x.bind f) := by
  cases x with
  | ok a => exact hf a hx
  | panic w => trivial
  | fuel => trivial

/-- bind rule that remembers which value the first computation returned -/
theorem Holds.bind_eq {α β} {Q : β → Prop} {x : Outcome α} {f : α → Outcome β}
    (hf : ∀ a, x = .ok a → Holds Q (f a)) : Holds Q (x.bind f) := by
  cases x with
  | ok a => exact hf a rfl
  | panic w => trivial
  | fuel => trivial

@[simp] theorem ok_bind' {α β} (a : α) (f : α → Outcome β) : (Outcome.ok a).bind f = f a := rfl

theorem Holds.mono {α} {P Q : α → Prop} {x : Outcome α} (hx : Holds P x) (h : ∀ a, P a → Q a) : Holds Q x := by
  cases x with
  | ok a => exact h a hx
  | panic w => trivial
  | fuel => trivial

theorem Holds.of_true {α} {P : α → Prop} (x : Outcome α) (h : ∀ a, P a) : Holds P x := by
  cases x <;> simp [Holds, h]

/-- invariant rule for `foldlM` -/
theorem foldlM_holds {α β} (P : β → Prop) (f : β → α → Outcome β) :
    ∀ (l : List α) (b : β), P b → (∀ b a, a ∈ l → P b → Holds P (f b a)) → Holds P (foldlM f b l)
  | [], b, hb, _ => by simpa [foldlM] using hb
  | a :: as, b, hb, hf => by
    simp only [foldlM]
    exact Holds.bind (hf b a List.mem_cons_self hb)
      (fun b' hb' => foldlM_holds P f as b' hb' (fun b a ha hb => hf b a (List.mem_cons_of_mem _ ha) hb))

end Outcome

/-- invariant rule for `List.foldl` -/
theorem foldl_inv {α β} (P : β → Prop) (f : β → α → β) :
    ∀ (l : List α) (b : β), P b → (∀ b a, a ∈ l → P b → P (f b a)) → P (l.foldl f b)
  | [], b, hb, _ => hb
  | a :: as, b, hb, hf => by
    simp only [List.foldl]
    exact foldl_inv P f as (f b a) (hf b a List.mem_cons_self hb)
      (fun b a ha hb => hf b a (List.mem_cons_of_mem _ ha) hb)

end Gs
