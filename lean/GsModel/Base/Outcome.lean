/-
  Three-outcome monad used by every model of imperative Go code:
  `ok a` (normal return), `panic why` (Go run-time panic: index out of range, nil dereference,
  failed type assertion, comparison of uncomparable interface values), `fuel` (the fuel given to a
  recursion through `$ref` ran out — never "no result").
-/
namespace Gs

inductive Outcome (α : Type) where
  | ok (a : α)
  | panic (why : String)
  | fuel
  deriving Repr

namespace Outcome

@[inline] def bind {α β} (x : Outcome α) (f : α → Outcome β) : Outcome β :=
  match x with
  | .ok a => f a
  | .panic w => .panic w
  | .fuel => .fuel

instance : Monad Outcome where
  pure := .ok
  bind := Outcome.bind

def isPanic {α} : Outcome α → Bool
  | .panic _ => true
  | _ => false

def isOk {α} : Outcome α → Bool
  | .ok _ => true
  | _ => false

@[simp] theorem pure_eq {α} (a : α) : (pure a : Outcome α) = .ok a := rfl
@[simp] theorem ok_bind {α β} (a : α) (f : α → Outcome β) : (Outcome.ok a >>= f) = f a := rfl
@[simp] theorem panic_bind {α β} (w : String) (f : α → Outcome β) :
    (Outcome.panic w >>= f) = .panic w := rfl
@[simp] theorem fuel_bind {α β} (f : α → Outcome β) : ((Outcome.fuel : Outcome α) >>= f) = .fuel := rfl

/-- `foldlM` written out so that `simp`/`induction` see a plain structural recursion. -/
def foldlM {α β} (f : β → α → Outcome β) : β → List α → Outcome β
  | b, [] => .ok b
  | b, a :: as => (f b a).bind (fun b' => foldlM f b' as)

end Outcome

/-- association-list lookup (Go map read). -/
def lookup {α} : List (String × α) → String → Option α
  | [], _ => none
  | (k, v) :: tl, q => if k = q then some v else lookup tl q

def hasKey {α} (m : List (String × α)) (q : String) : Bool := (lookup m q).isSome

/-- keys pairwise distinct: the invariant of a Go map seen as an association list. -/
def keysDistinct {α} : List (String × α) → Prop
  | [] => True
  | (k, _) :: tl => (∀ kv ∈ tl, kv.1 ≠ k) ∧ keysDistinct tl

def keysDistinctB {α} : List (String × α) → Bool
  | [] => true
  | (k, _) :: tl => tl.all (fun kv => kv.1 != k) && keysDistinctB tl

theorem keysDistinctB_sound {α} : ∀ (m : List (String × α)), keysDistinctB m = true → keysDistinct m
  | [], _ => trivial
  | (k, _) :: tl, h => by
    simp only [keysDistinctB, Bool.and_eq_true, List.all_eq_true, bne_iff_ne, ne_eq] at h
    exact ⟨fun kv hkv => h.1 kv hkv, keysDistinctB_sound tl h.2⟩

theorem lookup_distinct {α} : ∀ (m : List (String × α)), keysDistinct m →
    ∀ kv ∈ m, lookup m kv.1 = some kv.2
  | [], _, kv, h => by cases h
  | (k, v) :: tl, hd, kv, h => by
    rcases List.mem_cons.mp h with h | h
    · subst h; simp [lookup]
    · have hne : kv.1 ≠ k := hd.1 kv h
      have : k ≠ kv.1 := fun e => hne e.symm
      simp only [lookup, this, if_false]
      exact lookup_distinct tl hd.2 kv h

theorem lookup_mem {α} : ∀ (m : List (String × α)) k v, lookup m k = some v → (k, v) ∈ m
  | [], _, _, h => by simp [lookup] at h
  | (k', v') :: tl, k, v, h => by
    simp only [lookup] at h
    split at h
    · rename_i e; cases h; subst e; exact List.mem_cons_self
    · exact List.mem_cons_of_mem _ (lookup_mem tl k v h)

end Gs
