/-
  C06 — model of how a generated server decides whether a request reaches the handler:
  effective security requirement (operation list if present, else global), the `.Authorized` guard of the generated
  ServeHTTP, and the pinned runtime's RouteAuthenticator / RouteAuthenticators / Context.Authorize decision.
-/
namespace Gs.Sec

/-- what one scheme's authenticator answers for the credential presented to it -/
inductive Res where
  | notApplies                 -- no credential of that kind in the request
  | err (code : Nat)           -- authenticator returned an error (coded: 401 / 403; 500 for an uncoded one)
  | okNil                      -- no error but a nil principal
  | ok (principal : String)
  deriving DecidableEq, Repr

/-- one alternative (one security requirement object): the schemes it names, in the order the router lists them;
    the empty alternative `{}` allows anonymous access -/
abbrev Alt := List String

def effective (global : List Alt) (op : Option (List Alt)) : List Alt :=
  match op with
  | some l => l
  | none => global

/-- outcome of RouteAuthenticator.Authenticate for a non-anonymous alternative: (applies, principal?, error?) -/
inductive AltRes where
  | notApplies
  | err (code : Nat)
  | ok (principal : Option String)
  deriving DecidableEq, Repr

def authAlt (cred : String → Res) : Alt → Option String → AltRes
  | [], last => .ok last
  | s :: rest, last =>
    match cred s with
    | .notApplies => .notApplies
    | .err c => .err c
    | .okNil => authAlt cred rest none
    | .ok p => authAlt cred rest (some p)

inductive Outcome where
  | handler (principal : Option String)
  | reject (status : Nat)
  deriving DecidableEq, Repr

/-- RouteAuthenticators.Authenticate + Context.Authorize over the alternatives; `lastErr` is the last error seen,
    `anon` whether an anonymous alternative was met -/
def authAlts (cred : String → Res) : List Alt → Option Nat → Bool → Outcome
  | [], lastErr, anon =>
    match lastErr with
    | some c => .reject c
    | none => if anon then .handler none else .reject 401
  | a :: rest, lastErr, anon =>
    if a.isEmpty then authAlts cred rest lastErr true
    else match authAlt cred a none with
      | .ok (some p) => .handler (some p)
      | .err c => authAlts cred rest (some c) anon
      | _ => authAlts cred rest lastErr anon

/-- the generated ServeHTTP: Authorize is called iff the operation has an effective requirement -/
def serve (global : List Alt) (op : Option (List Alt)) (cred : String → Res) : Outcome :=
  let eff := effective global op
  if eff.isEmpty then .handler none else authAlts cred eff none false

/-- every scheme of the alternative is answered without "not applicable" and without error -/
def altAuthenticates (cred : String → Res) (a : Alt) : Prop :=
  ∀ s ∈ a, (cred s = .okNil ∨ ∃ p, cred s = .ok p)

end Gs.Sec
