import GsModel.Base.Outcome
import GsModel.Gen.DiffTables
import GsModel.Diff.Types
import GsModel.Diff.Analyser
import GsModel.Diff.Json
