import Lean.Data.Json
import GsModel.Diff.Json
import GsModel.Diff.Total
import GsModel.Diff.Terminates
import GsModel.Ops.Regen
import GsModel.Text.Escape
import GsModel.Text.Tags
import GsModel.Text.Init
import GsModel.Ops.Gather
import GsModel.Sec.Serve
import GsModel.Params.Bind
import GsModel.Pair.Encode
import GsModel.Doc.Lines
import GsModel.Scan.GoTypes
import GsModel.Scan.Indent
import GsModel.Scan.Lists
import GsModel.Names.Timeout
import GsModel.Schema.Valid
/-
  Model driver: one JSON request per line on stdin, one JSON response per line on stdout.
  Imports no Mathlib (compiled as `lean_exe gsdriver`).
-/
open Lean Gs

def handleDiff (j : Json) : Json :=
  let a := Diff.J.spec ((j.getObjVal? "a").toOption.getD .null)
  let b := Diff.J.spec ((j.getObjVal? "b").toOption.getD .null)
  let fuel := 200
  let run (o : Nat) := Json.mkObj (Diff.J.outcomeJson (Diff.analyse { rev := o } fuel a b))
  let r0 := Diff.analyse { rev := 0 } fuel a b
  Json.mkObj (Diff.J.outcomeJson r0 ++ [("alts", Json.arr #[run 1, run 2, run 3, run 4, run 5]),
    -- the validity hypothesis of `total_no_panic`, evaluated beyond the nesting depth of any generated document
    ("va", Json.bool (a.validB 40)), ("vb", Json.bool (b.validB 40)),
    -- the depth hypothesis of `terminates_acyclic` (false for recursive definitions)
    ("fa", Json.bool (a.fitsB 24)), ("fb", Json.bool (b.fitsB 24))])

def handleExecute (j : Json) : Json :=
  let ds := (Diff.J.arr j "diffs").filterMap Diff.J.entry
  let ig := (Diff.J.arr j "ignores").filterMap Diff.J.entry
  if ds.length ≠ (Diff.J.arr j "diffs").length || ig.length ≠ (Diff.J.arr j "ignores").length then
    Json.mkObj [("r", Json.str "bad-input")]
  else
  let r := Diff.execute (Diff.J.str j "fmt" == "json") (Diff.J.bool j "brk") ds ig
  match r.1 with
  | .text lines => Json.mkObj [("r", Json.str "ok"), ("exit", Json.bool r.2), ("lines", Json.arr (lines.map Json.str).toArray)]
  | .json out => Json.mkObj [("r", Json.str "ok"), ("exit", Json.bool r.2), ("diffs", Json.arr (out.map Diff.J.entryJson).toArray)]

/-- {"op":"regen.exec","fs":[[p,c]..],"ops":[{"run":[[p,c,skip]..]} | {"user":[p,c]}]} → {"fs":[[p,c]..]} -/
def handleRegen (j : Json) : Json :=
  let pair (x : Json) : String × String :=
    match x with
    | .arr a => ((a[0]?.bind (·.getStr?.toOption)).getD "", (a[1]?.bind (·.getStr?.toOption)).getD "")
    | _ => ("", "")
  let fs : Regen.FS := (Diff.J.arr j "fs").map pair
  let ops : List Regen.Op := (Diff.J.arr j "ops").map (fun o =>
    match o.getObjVal? "run" with
    | .ok (.arr ws) => Regen.Op.run (ws.toList.map (fun w =>
        match w with
        | .arr a => { path := (a[0]?.bind (·.getStr?.toOption)).getD "", content := (a[1]?.bind (·.getStr?.toOption)).getD "",
                      skip := (a[2]?.bind (·.getBool?.toOption)).getD false }
        | _ => { path := "", content := "", skip := false }))
    | _ =>
      let u := pair ((o.getObjVal? "user").toOption.getD .null)
      Regen.Op.user u.1 u.2)
  let out := Regen.exec fs ops
  Json.mkObj [("r", Json.str "ok"), ("fs", Json.arr (out.map (fun kv => Json.arr #[Json.str kv.1, Json.str kv.2])).toArray)]

/-- {"op":"text.escape","fn":"comment|blockcomment|backticks","in":s,"pad":p} → {"out":s} -/
def handleEscape (j : Json) : Json :=
  let s := (Diff.J.str j "in").toList
  let out : List Char :=
    match Diff.J.str j "fn" with
    | "comment" => Text.padComment s (Diff.J.str j "pad").toList
    | "blockcomment" => Text.blockComment s
    | "backticks" => Text.escBacktick s
    | "readable" => Text.readable s
    | _ => []
  let ev := match Diff.J.str j "fn" with
    | "backticks" => (Text.evalGo ('`' :: out ++ ['`'])).map String.ofList
    | "readable" => (Text.evalGo ('`' :: out ++ ['`'])).map String.ofList
    | _ => none
  Json.mkObj [("r", Json.str "ok"), ("out", Json.str (String.ofList out)),
    ("eval", match ev with | some v => Json.str v | none => Json.null),
    ("blockEnd", Json.bool (Text.hasBlockEnd out)), ("inLine", Json.bool (Text.inLineComments out))]

instance : Inhabited Text.Init.V := ⟨.num []⟩

partial def jsonInitV (j : Json) : Text.Init.V :=
  match j with
  | .str s => .str s.toList
  | .arr a => .arr (a.toList.map jsonInitV)
  | .obj kvs => .obj (kvs.toList.map (fun kv => (kv.1.toList, jsonInitV kv.2)))
  | .num n => .num (toString n).toList
  | .bool b => .num (toString b).toList
  | .null => .num "null".toList

/-- {"op":"text.initLiteral","value":<json>} → {"out":s,"structureOk":bool} -/
def handleInitLiteral (j : Json) : Json :=
  let v := jsonInitV ((j.getObjVal? "value").toOption.getD .null)
  let out := Text.Init.render v
  Json.mkObj [("r", Json.str "ok"), ("out", Json.str (String.ofList out)),
    ("structureOk", Json.bool (Text.Init.skel 0 out == Text.Init.shape v))]

/-- {"op":"text.printTags","tags":[[key,value]..],"custom":s} → {"out":s,"oneToken":bool} -/
def handlePrintTags (j : Json) : Json :=
  let tags : List (List Char × List Char) := (Diff.J.arr j "tags").map (fun x =>
    match x with
    | .arr a => (((a[0]?.bind (·.getStr?.toOption)).getD "").toList, ((a[1]?.bind (·.getStr?.toOption)).getD "").toList)
    | _ => ([], []))
  let out := Text.Tags.printTags tags (Diff.J.str j "custom").toList
  Json.mkObj [("r", Json.str "ok"), ("out", Json.str (String.ofList out)),
    ("oneToken", Json.bool (Text.Tags.rawOneToken out || Text.Tags.interpOneToken out))]

/-- {"op":"ops.gather","ops":[{key,method,path,id}..]} (already in sorted order) → {"kept":[[name,method,path]..]} -/
def handleGather (j : Json) : Json :=
  let ops : List Gather.Op := (Diff.J.arr j "ops").map (fun o =>
    { key := Diff.J.str o "key", method := Diff.J.str o "method", path := Diff.J.str o "path", id := Diff.J.str o "id" })
  let out := Gather.gather ops
  Json.mkObj [("r", Json.str "ok"),
    ("kept", Json.arr (out.map (fun kv => Json.arr #[Json.str kv.1, Json.str kv.2.method, Json.str kv.2.path])).toArray)]

/-- {"op":"sec.serve","global":[[s..]..],"opsec":null|[[s..]..],"cred":{s:{"r":"na|err|nil|ok","code":n,"p":str}}} -/
def handleSec (j : Json) : Json :=
  let alts (x : Json) : List Sec.Alt :=
    match x with
    | .arr a => a.toList.map (fun al => match al with | .arr ss => ss.toList.map (fun s => s.getStr?.toOption.getD "") | _ => [])
    | _ => []
  let global := alts ((j.getObjVal? "global").toOption.getD .null)
  let opsec : Option (List Sec.Alt) :=
    match j.getObjVal? "opsec" with
    | .ok (.arr a) => some (alts (.arr a))
    | _ => none
  let credJ := (j.getObjVal? "cred").toOption.getD .null
  let cred (s : String) : Sec.Res :=
    match credJ.getObjVal? s with
    | .ok c =>
      match Diff.J.str c "r" with
      | "ok" => .ok (Diff.J.str c "p")
      | "nil" => .okNil
      | "err" => .err (Diff.J.nat c "code")
      | _ => .notApplies
    | _ => .notApplies
  match Sec.serve global opsec cred with
  | .handler (some p) => Json.mkObj [("r", Json.str "ok"), ("out", Json.str "handler"), ("principal", Json.str p)]
  | .handler none => Json.mkObj [("r", Json.str "ok"), ("out", Json.str "handler"), ("principal", Json.null)]
  | .reject c => Json.mkObj [("r", Json.str "ok"), ("out", Json.str "reject"), ("status", Json.num c)]

def optNat (j : Json) (k : String) : Option Nat :=
  match j.getObjVal? k with
  | .ok .null => none
  | .ok v => (v.getNat?).toOption
  | .error _ => none

def pspec (j : Json) : Params.PSpec :=
  let ty : Params.PType := match Diff.J.str j "ty" with
    | "int32" => .int 32
    | "int64" => .int 64
    | "bool" => .bool
    | _ => .str
  { required := Diff.J.bool j "required", isArray := Diff.J.bool j "isArray", cf := Diff.J.str j "cf", ty := ty,
    v := { minLen := optNat j "minLen", maxLen := optNat j "maxLen", enumS := Diff.J.strs j "enumS",
           minI := Diff.J.optInt j "minI", exMin := Diff.J.bool j "exMin", maxI := Diff.J.optInt j "maxI", exMax := Diff.J.bool j "exMax",
           enumI := (Diff.J.arr j "enumI").filterMap (fun x => x.getInt?.toOption) },
    minItems := optNat j "minItems", maxItems := optNat j "maxItems", unique := Diff.J.bool j "unique", allowEmpty := Diff.J.bool j "allowEmpty" }

def valJson : Params.Val → Json
  | .s x => Json.mkObj [("s", Json.str x)]
  | .i x => Json.mkObj [("i", Json.num (Lean.JsonNumber.fromInt x))]
  | .b x => Json.mkObj [("b", Json.bool x)]

def boundJson : Params.Bound → Json
  | .absent => Json.mkObj [("k", Json.str "absent")]
  | .reject => Json.mkObj [("k", Json.str "reject")]
  | .one v => Json.mkObj [("k", Json.str "one"), ("v", valJson v)]
  | .many vs => Json.mkObj [("k", Json.str "many"), ("v", Json.arr (vs.map valJson).toArray)]

/-- {"op":"param.bind","spec":{..},"raw":null|[s..]} → {"gen":Bound,"ref":Bound} -/
def handleBind (j : Json) : Json :=
  let p := pspec ((j.getObjVal? "spec").toOption.getD .null)
  let raw : Option (List Params.Str) :=
    match j.getObjVal? "raw" with
    | .ok (.arr a) => some (a.toList.map (fun x => (x.getStr?.toOption.getD "").toList))
    | _ => none
  Json.mkObj [("r", Json.str "ok"), ("gen", boundJson (Params.bindGenAny p raw)), ("ref", boundJson (Params.bindRefAny p raw))]

def jsonVal (j : Json) : Option Params.Val :=
  match j.getObjVal? "s", j.getObjVal? "i", j.getObjVal? "b" with
  | .ok (.str x), _, _ => some (.s x)
  | _, .ok v, _ => (v.getInt?.toOption).map Params.Val.i
  | _, _, .ok (.bool b) => some (.b b)
  | _, _, _ => none

def jsonBound (j : Json) : Params.Bound :=
  match Diff.J.str j "k" with
  | "one" => match jsonVal ((j.getObjVal? "v").toOption.getD .null) with
      | some v => .one v
      | none => .reject
  | "many" => .many ((Diff.J.arr j "v").filterMap jsonVal)
  | "absent" => .absent
  | _ => .reject

/-- {"op":"pair.roundtrip","spec":{..},"value":Bound} → {"wire":null|[s..],"bound":Bound}: what the client sends, what the server binds from it -/
def handlePair (j : Json) : Json :=
  let p := pspec ((j.getObjVal? "spec").toOption.getD .null)
  let v := jsonBound ((j.getObjVal? "value").toOption.getD .null)
  let wire := Pair.encodeGen p v
  let wj : Json := match wire with
    | none => Json.null
    | some ws => Json.arr (ws.map (fun w => Json.str (String.ofList w))).toArray
  Json.mkObj [("r", Json.str "ok"), ("wire", wj), ("bound", boundJson (Params.bindGenAny p wire))]

/-- {"op":"resp.dispatch","declared":[200,404],"default":true,"code":500} → {"kind":"defaultError","code":500} -/
def handleDispatch (j : Json) : Json :=
  let d := (Diff.J.arr j "declared").filterMap (fun x => x.getNat?.toOption)
  let k := Pair.readResp d (Diff.J.bool j "default") (Diff.J.nat j "code")
  let (name, c) := match k with
    | .success c => ("success", c)
    | .typedError c => ("typedError", c)
    | .defaultSuccess c => ("defaultSuccess", c)
    | .defaultError c => ("defaultError", c)
    | .apiError c => ("apiError", c)
  Json.mkObj [("r", Json.str "ok"), ("kind", Json.str name), ("code", Json.num c)]

def jsonDec (j : Json) : Doc.Dec :=
  { neg := Diff.J.bool j "neg", int := Diff.J.nat j "int", frac := (Diff.J.arr j "frac").filterMap (fun x => x.getNat?.toOption) }

def decJson (d : Doc.Dec) : Json :=
  Json.mkObj [("neg", Json.bool d.neg), ("int", Json.num (Lean.JsonNumber.fromNat d.int)), ("frac", Json.arr (d.frac.map (fun n => Json.num (Lean.JsonNumber.fromNat n))).toArray)]

/-- {"op":"doc.roundtrip","kind":"maximum"|"minimum","num":Dec,"excl":bool} → printed text, whether the scanner keeps it, and as what -/
def handleDoc (j : Json) : Json :=
  let d := jsonDec ((j.getObjVal? "num").toOption.getD .null)
  let excl := Diff.J.bool j "excl"
  let line : Doc.Line := if Diff.J.str j "kind" = "maximum" then .maximum d excl else .minimum d excl
  let t := Doc.emit line
  match Doc.parse true t with
  | some (.maximum v e) => Json.mkObj [("r", Json.str "ok"), ("text", Json.str (String.ofList t.val)), ("kept", Json.bool true), ("num", decJson v), ("excl", Json.bool e)]
  | some (.minimum v e) => Json.mkObj [("r", Json.str "ok"), ("text", Json.str (String.ofList t.val)), ("kept", Json.bool true), ("num", decJson v), ("excl", Json.bool e)]
  | _ => Json.mkObj [("r", Json.str "ok"), ("text", Json.str (String.ofList t.val)), ("kept", Json.bool false)]

instance : Inhabited Scan.GoTy := ⟨.iface⟩

partial def jsonGoTy (j : Json) : Scan.GoTy :=
  let elem := fun (_ : Unit) => jsonGoTy ((j.getObjVal? "elem").toOption.getD .null)
  match Diff.J.str j "k" with
  | "basic" => .basic (match Diff.J.str j "kind" with | "bool" => .bool | "int" => .int | "float" => .float | _ => .str)
  | "ptr" => .ptr (elem ())
  | "slice" => .slice (elem ())
  | "arr" => .arr (elem ())
  | "map" => .map (elem ())
  | "time" => .time
  | "text" => .text
  | "bytes" => .bytes
  | "strct" => .strct ((Diff.J.arr j "fields").map (fun f =>
      ({ json := Diff.J.str f "json", omitempty := Diff.J.bool f "omitempty", asString := Diff.J.bool f "asString" },
       jsonGoTy ((f.getObjVal? "ty").toOption.getD .null))))
  | _ => .iface

partial def shapeJson (s : Schema.Schema) : Json :=
  let base : List (String × Json) := if s.ty ≠ "" then [("ty", Json.str s.ty)] else []
  let base := match s.items with | some it => base ++ [("items", shapeJson it)] | none => base
  let base := match s.addl with | some a => base ++ [("addl", shapeJson a)] | none => base
  let base := if s.props.isEmpty then base else base ++ [("props", Json.mkObj (s.props.map (fun kp => (kp.1, shapeJson kp.2))))]
  Json.mkObj base

/-- named references are outside the Lean fragment: the harness substitutes them before calling (k = "named" → ref) -/
partial def shapeOfTy (strAll : Bool) (j : Json) : Json :=
  match Diff.J.str j "k" with
  | "named" => Json.mkObj [("ref", Json.str (Diff.J.str j "name"))]
  | "ptr" => shapeOfTy strAll ((j.getObjVal? "elem").toOption.getD .null)
  | "slice" | "arr" => Json.mkObj [("ty", Json.str "array"), ("items", shapeOfTy strAll ((j.getObjVal? "elem").toOption.getD .null))]
  | "map" => Json.mkObj [("ty", Json.str "object"), ("addl", shapeOfTy strAll ((j.getObjVal? "elem").toOption.getD .null))]
  | "strct" =>
    let fs := Diff.J.arr j "fields"
    let props := fs.map (fun f =>
      let ty := (f.getObjVal? "ty").toOption.getD .null
      let strOpt := Diff.J.bool f "asString" && (strAll || Scan.stringable (jsonGoTy ty))
      (Diff.J.str f "json", if strOpt then Json.mkObj [("ty", Json.str "string")] else shapeOfTy strAll ty))
    if props.isEmpty then Json.mkObj [("ty", Json.str "object")] else Json.mkObj [("ty", Json.str "object"), ("props", Json.mkObj props)]
  | _ => shapeJson (Scan.schemaOf strAll 40 (jsonGoTy j))

/-- {"op":"scan.schema","ty":GoTy,"strAll":bool} → structural shape of the schema the scanner builds -/
def handleScanSchema (j : Json) : Json :=
  Json.mkObj [("r", Json.str "ok"), ("schema", shapeOfTy (Diff.J.bool j "strAll") ((j.getObjVal? "ty").toOption.getD .null))]

/-- {"op":"scan.removeIndent","lines":[s..]} → {"lines":[s..]} | {"panic":why} -/
def handleRemoveIndent (j : Json) : Json :=
  let ls := (Diff.J.strs j "lines").map String.toList
  match Scan.removeIndent ls with
  | .ok r => Json.mkObj [("r", Json.str "ok"), ("lines", Json.arr (r.map (fun l => Json.str (String.ofList l))).toArray)]
  | .panic w => Json.mkObj [("r", Json.str "ok"), ("panic", Json.str w)]
  | .fuel => Json.mkObj [("r", Json.str "fuel")]

/-- {"op":"scan.schemes"|"scan.tags","s":capture} → {"items":[s..]} : the item splitters behind the regexp captures -/
def handleScanList (schemes : Bool) (j : Json) : Json :=
  let s := (Diff.J.str j "s").toList
  let r := if schemes then Scan.schemesOf Scan.goIsSpace s else Scan.fields Scan.goIsSpace s
  Json.mkObj [("r", Json.str "ok"), ("items", Json.arr (r.map (fun l => Json.str (String.ofList l))).toArray)]

/-- {"op":"names.renameTimeout","seen":[s..],"name":s} → {"name":s} | {"fuel":true} -/
def handleRenameTimeout (j : Json) : Json :=
  let seen := (Diff.J.strs j "seen").map String.toList
  match Names.renameTimeout seen (Names.maxLen seen + 8) (Diff.J.str j "name").toList with
  | some r => Json.mkObj [("r", Json.str "ok"), ("name", Json.str (String.ofList r))]
  | none => Json.mkObj [("r", Json.str "ok"), ("fuel", Json.bool true)]

partial def toJ (j : Json) : Schema.J :=
  match j with
  | .null => .null
  | .bool b => .bool b
  | .num n =>
    let e := n.exponent
    if e ≤ 3 then .num (n.mantissa * (10 : Int) ^ (3 - e)) else .num (n.mantissa / (10 : Int) ^ (e - 3))
  | .str s => .str s
  | .arr a => .arr (a.toList.map toJ)
  | .obj o => .obj (o.toList.map (fun kv => (kv.1, toJ kv.2)))

partial def toSchema (j : Json) : Schema.Schema :=
  let sub (k : String) : Option Schema.Schema :=
    match j.getObjVal? k with
    | .ok (.obj o) => some (toSchema (.obj o))
    | _ => none
  { ref := Diff.J.str j "ref", ty := Diff.J.str j "ty", nullable := Diff.J.bool j "nullable", readOnly := Diff.J.bool j "readOnly",
    hasDefault := Diff.J.bool j "hasDefault", minLen := optNat j "minLen", maxLen := optNat j "maxLen",
    minimum := Diff.J.optInt j "minimum", exMin := Diff.J.bool j "exMin", maximum := Diff.J.optInt j "maximum", exMax := Diff.J.bool j "exMax",
    multipleOf := Diff.J.optInt j "multipleOf", enum := (Diff.J.arr j "enum").map toJ, items := sub "items",
    minItems := optNat j "minItems", maxItems := optNat j "maxItems", unique := Diff.J.bool j "unique",
    minProps := optNat j "minProps", maxProps := optNat j "maxProps",
    props := (Diff.J.arr j "props").map (fun kv => (Diff.J.str kv "k", toSchema ((kv.getObjVal? "v").toOption.getD .null))),
    required := Diff.J.strs j "required", addl := sub "addl", allOf := (Diff.J.arr j "allOf").map toSchema }

def schemaDefs (j : Json) : Schema.Defs :=
  (Diff.J.arr j "defs").map (fun kv => (Diff.J.str kv "k", toSchema ((kv.getObjVal? "v").toOption.getD .null)))

def handleSchemaCheck (j : Json) : Json :=
  let d := schemaDefs j
  let s := toSchema ((j.getObjVal? "s").toOption.getD .null)
  let v := toJ ((j.getObjVal? "j").toOption.getD .null)
  Json.mkObj [("r", Json.str "ok"), ("valid", Json.bool (Schema.valid d 60 s v)), ("validSkip", Json.bool (Schema.validSkip d 60 s v)), ("validAny", Json.bool (Schema.validAny d 60 s v)), ("validAll", Json.bool (Schema.validAll d 60 s v)),
    ("noZero", Json.bool (Schema.noZeroProps 60 v))]

def handleTolerated (j : Json) : Json :=
  let d := schemaDefs j
  let s := toSchema ((j.getObjVal? "s").toOption.getD .null)
  let a := toJ ((j.getObjVal? "j").toOption.getD .null)
  let b := toJ ((j.getObjVal? "j2").toOption.getD .null)
  Json.mkObj [("r", Json.str "ok"), ("tolerated", Json.bool (Schema.tolerated d 60 s a b)), ("equal", Json.bool (Schema.J.beq 60 a b))]

def handle (line : String) : Json :=
  match Json.parse line with
  | .error e => Json.mkObj [("r", Json.str "bad-input"), ("why", Json.str e)]
  | .ok j =>
    match (j.getObjValAs? String "op").toOption.getD "" with
    | "diff.analyse" => handleDiff j
    | "diff.execute" => handleExecute j
    | "regen.exec" => handleRegen j
    | "text.escape" => handleEscape j
    | "text.printTags" => handlePrintTags j
    | "text.initLiteral" => handleInitLiteral j
    | "ops.gather" => handleGather j
    | "sec.serve" => handleSec j
    | "param.bind" => handleBind j
    | "names.renameTimeout" => handleRenameTimeout j
    | "scan.removeIndent" => handleRemoveIndent j
    | "scan.schema" => handleScanSchema j
    | "scan.schemes" => handleScanList true j
    | "scan.tags" => handleScanList false j
    | "doc.roundtrip" => handleDoc j
    | "pair.roundtrip" => handlePair j
    | "resp.dispatch" => handleDispatch j
    | "schema.check" => handleSchemaCheck j
    | "schema.tolerated" => handleTolerated j
    | op => Json.mkObj [("r", Json.str "bad-op"), ("op", Json.str op)]

partial def loop (h : IO.FS.Stream) (out : IO.FS.Stream) : IO Unit := do
  let line ← h.getLine
  if line.isEmpty then return ()
  let t := line.trimAscii.toString
  if t.isEmpty then loop h out else
  out.putStrLn (handle t).compress
  out.flush
  loop h out

def main : IO Unit := do loop (← IO.getStdin) (← IO.getStdout)
