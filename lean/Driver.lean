import Lean.Data.Json
import GsModel.Diff.Json
import GsModel.Ops.Regen
import GsModel.Text.Escape
import GsModel.Ops.Gather
import GsModel.Sec.Serve
import GsModel.Params.Bind
/-
  Model driver: one JSON request per line on stdin, one JSON response per line on stdout.
  Imports no Mathlib (compiled as `lean_exe gsdriver`).
-/
open Lean Gs

def handleDiff (j : Json) : Json :=
  let a := Diff.J.spec ((j.getObjVal? "a").toOption.getD .null)
  let b := Diff.J.spec ((j.getObjVal? "b").toOption.getD .null)
  let fuel := 200
  let run (o : Nat) := Json.mkObj (Diff.J.outcomeJson (Diff.analyse { rev := o } fuel a b))
  let r0 := Diff.analyse { rev := 0 } fuel a b
  Json.mkObj (Diff.J.outcomeJson r0 ++ [("alts", Json.arr #[run 1, run 2, run 3, run 4, run 5])])

def handleExecute (j : Json) : Json :=
  let ds := (Diff.J.arr j "diffs").filterMap Diff.J.entry
  let ig := (Diff.J.arr j "ignores").filterMap Diff.J.entry
  if ds.length ≠ (Diff.J.arr j "diffs").length || ig.length ≠ (Diff.J.arr j "ignores").length then
    Json.mkObj [("r", Json.str "bad-input")]
  else
  let r := Diff.execute (Diff.J.str j "fmt" == "json") (Diff.J.bool j "brk") ds ig
  match r.1 with
  | .text lines => Json.mkObj [("r", Json.str "ok"), ("exit", Json.bool r.2), ("lines", Json.arr (lines.map Json.str).toArray)]
  | .json out => Json.mkObj [("r", Json.str "ok"), ("exit", Json.bool r.2), ("diffs", Json.arr (out.map Diff.J.entryJson).toArray)]

/-- {"op":"regen.exec","fs":[[p,c]..],"ops":[{"run":[[p,c,skip]..]} | {"user":[p,c]}]} → {"fs":[[p,c]..]} -/
def handleRegen (j : Json) : Json :=
  let pair (x : Json) : String × String :=
    match x with
    | .arr a => ((a[0]?.bind (·.getStr?.toOption)).getD "", (a[1]?.bind (·.getStr?.toOption)).getD "")
    | _ => ("", "")
  let fs : Regen.FS := (Diff.J.arr j "fs").map pair
  let ops : List Regen.Op := (Diff.J.arr j "ops").map (fun o =>
    match o.getObjVal? "run" with
    | .ok (.arr ws) => Regen.Op.run (ws.toList.map (fun w =>
        match w with
        | .arr a => { path := (a[0]?.bind (·.getStr?.toOption)).getD "", content := (a[1]?.bind (·.getStr?.toOption)).getD "",
                      skip := (a[2]?.bind (·.getBool?.toOption)).getD false }
        | _ => { path := "", content := "", skip := false }))
    | _ =>
      let u := pair ((o.getObjVal? "user").toOption.getD .null)
      Regen.Op.user u.1 u.2)
  let out := Regen.exec fs ops
  Json.mkObj [("r", Json.str "ok"), ("fs", Json.arr (out.map (fun kv => Json.arr #[Json.str kv.1, Json.str kv.2])).toArray)]

/-- {"op":"text.escape","fn":"comment|blockcomment|backticks","in":s,"pad":p} → {"out":s} -/
def handleEscape (j : Json) : Json :=
  let s := (Diff.J.str j "in").toList
  let out : List Char :=
    match Diff.J.str j "fn" with
    | "comment" => Text.padComment s (Diff.J.str j "pad").toList
    | "blockcomment" => Text.blockComment s
    | "backticks" => Text.escBacktick s
    | "readable" => Text.readable s
    | _ => []
  let ev := match Diff.J.str j "fn" with
    | "backticks" => (Text.evalGo ('`' :: out ++ ['`'])).map String.ofList
    | "readable" => (Text.evalGo ('`' :: out ++ ['`'])).map String.ofList
    | _ => none
  Json.mkObj [("r", Json.str "ok"), ("out", Json.str (String.ofList out)),
    ("eval", match ev with | some v => Json.str v | none => Json.null),
    ("blockEnd", Json.bool (Text.hasBlockEnd out)), ("inLine", Json.bool (Text.inLineComments out))]

/-- {"op":"ops.gather","ops":[{key,method,path,id}..]} (already in sorted order) → {"kept":[[name,method,path]..]} -/
def handleGather (j : Json) : Json :=
  let ops : List Gather.Op := (Diff.J.arr j "ops").map (fun o =>
    { key := Diff.J.str o "key", method := Diff.J.str o "method", path := Diff.J.str o "path", id := Diff.J.str o "id" })
  let out := Gather.gather ops
  Json.mkObj [("r", Json.str "ok"),
    ("kept", Json.arr (out.map (fun kv => Json.arr #[Json.str kv.1, Json.str kv.2.method, Json.str kv.2.path])).toArray)]

/-- {"op":"sec.serve","global":[[s..]..],"opsec":null|[[s..]..],"cred":{s:{"r":"na|err|nil|ok","code":n,"p":str}}} -/
def handleSec (j : Json) : Json :=
  let alts (x : Json) : List Sec.Alt :=
    match x with
    | .arr a => a.toList.map (fun al => match al with | .arr ss => ss.toList.map (fun s => s.getStr?.toOption.getD "") | _ => [])
    | _ => []
  let global := alts ((j.getObjVal? "global").toOption.getD .null)
  let opsec : Option (List Sec.Alt) :=
    match j.getObjVal? "opsec" with
    | .ok (.arr a) => some (alts (.arr a))
    | _ => none
  let credJ := (j.getObjVal? "cred").toOption.getD .null
  let cred (s : String) : Sec.Res :=
    match credJ.getObjVal? s with
    | .ok c =>
      match Diff.J.str c "r" with
      | "ok" => .ok (Diff.J.str c "p")
      | "nil" => .okNil
      | "err" => .err (Diff.J.nat c "code")
      | _ => .notApplies
    | _ => .notApplies
  match Sec.serve global opsec cred with
  | .handler (some p) => Json.mkObj [("r", Json.str "ok"), ("out", Json.str "handler"), ("principal", Json.str p)]
  | .handler none => Json.mkObj [("r", Json.str "ok"), ("out", Json.str "handler"), ("principal", Json.null)]
  | .reject c => Json.mkObj [("r", Json.str "ok"), ("out", Json.str "reject"), ("status", Json.num c)]

def optNat (j : Json) (k : String) : Option Nat :=
  match j.getObjVal? k with
  | .ok .null => none
  | .ok v => (v.getNat?).toOption
  | .error _ => none

def pspec (j : Json) : Params.PSpec :=
  let ty : Params.PType := match Diff.J.str j "ty" with
    | "int32" => .int 32
    | "int64" => .int 64
    | "bool" => .bool
    | _ => .str
  { required := Diff.J.bool j "required", isArray := Diff.J.bool j "isArray", cf := Diff.J.str j "cf", ty := ty,
    v := { minLen := optNat j "minLen", maxLen := optNat j "maxLen", enumS := Diff.J.strs j "enumS",
           minI := Diff.J.optInt j "minI", exMin := Diff.J.bool j "exMin", maxI := Diff.J.optInt j "maxI", exMax := Diff.J.bool j "exMax",
           enumI := (Diff.J.arr j "enumI").filterMap (fun x => x.getInt?.toOption) },
    minItems := optNat j "minItems", maxItems := optNat j "maxItems", unique := Diff.J.bool j "unique" }

def valJson : Params.Val → Json
  | .s x => Json.mkObj [("s", Json.str x)]
  | .i x => Json.mkObj [("i", Json.num (Lean.JsonNumber.fromInt x))]
  | .b x => Json.mkObj [("b", Json.bool x)]

def boundJson : Params.Bound → Json
  | .absent => Json.mkObj [("k", Json.str "absent")]
  | .reject => Json.mkObj [("k", Json.str "reject")]
  | .one v => Json.mkObj [("k", Json.str "one"), ("v", valJson v)]
  | .many vs => Json.mkObj [("k", Json.str "many"), ("v", Json.arr (vs.map valJson).toArray)]

/-- {"op":"param.bind","spec":{..},"raw":null|[s..]} → {"gen":Bound,"ref":Bound} -/
def handleBind (j : Json) : Json :=
  let p := pspec ((j.getObjVal? "spec").toOption.getD .null)
  let raw : Option (List Params.Str) :=
    match j.getObjVal? "raw" with
    | .ok (.arr a) => some (a.toList.map (fun x => (x.getStr?.toOption.getD "").toList))
    | _ => none
  Json.mkObj [("r", Json.str "ok"), ("gen", boundJson (Params.bindGen p raw)), ("ref", boundJson (Params.bindRef p raw))]

def handle (line : String) : Json :=
  match Json.parse line with
  | .error e => Json.mkObj [("r", Json.str "bad-input"), ("why", Json.str e)]
  | .ok j =>
    match (j.getObjValAs? String "op").toOption.getD "" with
    | "diff.analyse" => handleDiff j
    | "diff.execute" => handleExecute j
    | "regen.exec" => handleRegen j
    | "text.escape" => handleEscape j
    | "ops.gather" => handleGather j
    | "sec.serve" => handleSec j
    | "param.bind" => handleBind j
    | op => Json.mkObj [("r", Json.str "bad-op"), ("op", Json.str op)]

partial def loop (h : IO.FS.Stream) (out : IO.FS.Stream) : IO Unit := do
  let line ← h.getLine
  if line.isEmpty then return ()
  let t := line.trimAscii.toString
  if t.isEmpty then loop h out else
  out.putStrLn (handle t).compress
  out.flush
  loop h out

def main : IO Unit := do loop (← IO.getStdin) (← IO.getStdout)
